#!/usr/bin/env python3
"""Regenerates MANIFEST.json from the table below (kept as code so that it stays valid)."""
import json, os
ROOT = os.path.dirname(os.path.dirname(os.path.abspath(__file__)))
TRUST = ('Trusted: CBMC 6.11.0 and its SAT back end; the cxx2c translation axioms (DESIGN 2.1: Square==int, SqTbl==array, '
         'references==non-null non-aliasing pointers, std::atomic relaxed load/store==plain 64-bit word access); the spec text in units/<unit>/unit.py; '
         'assumed contracts listed in the evidence file. ')
CHECKS = {
    'C08': dict(
        text='Deductive proof with CBMC code contracts (goto-instrument --dfcc) on the C text mechanically extracted from transpositionTable.hpp/.cpp on every run: '
             'setUsedSize (unbounded loop closed by a loop contract) establishes the index invariant for every size 512..2^44; getIndex is in range and bucket-aligned for every key; '
             'probe/insert are proved with the table object modelled as exactly the used prefix, so any access into a resident tablebase or outside the table fails the pointer check; '
             'insert changes at most one slot and the changed slot decodes to one complete record for exactly the key, including its move (the stored move; the old move survives only when the old record has the same key and the new one carries no move); store/load xor encoding; torn-read lemma over all word mixes of two writers; '
             'setBusy re-stores the probed record unchanged in meaning (one slot, same score at the ply, type, depth, evaluation, busy set); '
             'field independence of all accessors; ply shift of mate scores exact for every ply pair; TB byte region disjoint from the used part.',
        note=TRUST + 'Not decided: real thread interleavings (word atomicity of std::atomic<U64> is assumed, schedules are not explored); clear()/reSize() allocation paths; updateTB size arithmetic is covered under C12.',
        technique='CBMC function contracts + loop contract on extracted real code (dfcc), SAT back end',
        design='4.6'),
}
CHECKS['C06'] = dict(
    text='Deductive proof (CBMC contracts, bit-precise IEEE doubles) on the extracted text of EngineControl::computeTimeLimit, ponderHit, the single-legal-move block of startThread (fragment) and Search::timeLimit: '
         'for every clock 1..10^7, increment 0..10^5, movestogo 0..100, movetime 1..10^5, side to move, Ponder on/off and every declared value of BufferTime/TimeMaxRemainingMoves/MaxTimeUsage/TimePonderHitRate: '
         'no signed overflow, no NaN/inf, float->int conversions in range, movetime => soft==hard==movetime, clock => 1 <= soft <= hard <= clock - min(buffer, 0.9 clock); the single-move clamp and ponderhit keep 1 <= soft <= hard <= previous hard and deliver exactly those limits to the search.',
    note=TRUST + 'Also under contract: the time/node test of the periodic stop test Search::shouldStop and the time test between iterations of iterativeDeepening (fragments): once the hard limit is reached both say stop, hardFactor stays in [0.3, 3.5], an infinite search is not stopped by them. '
         'quick tier proves the ponder-on case at the default tunable values, thorough with all tunables symbolic (about 3 min). Not decided: wall-clock delivery (polling interval, stop path, threads, MaxNPS) - needs execution.',
    technique='CBMC function contracts on extracted real code (dfcc), floating point encoded bit-precisely, SAT back end',
    design='4.4')
CHECKS['C02'] = dict(
    text='Deductive proof (CBMC contracts, dfcc) on the extracted text of position.hpp/.cpp and material.hpp: delta contracts for setPiece/clearPiece/movePieceNotPawn/setWhiteMove/setCastleMask/setEpSquare '
         '(every incremental field changes by exactly the delta of its from-scratch fold, represented by ghost model fields), makeMove against the rules of chess for every well-formed position and every structurally valid move '
         '(board after the move, side, castling rights, en-passant square, clocks, undo record; bitboards and all incremental attributes consistent again), unMakeMove(makeMove(p)) bit-identical to p (real bodies of both), '
         'MatId add/remove without overflow for every material configuration legal play can produce, compact serialisation format, staticInitialize table, bookHash/historyHash index in range.',
    note=TRUST + 'Zobrist key tables and piece values are uninterpreted functions (arbitrary tables; row EMPTY pinned to zero). Fold ghosts: the meta-invariant ghost == from-scratch fold rests on the single-square update lemma '
         '(commutativity/associativity of xor and modular addition) which is not machine-checked yet, and on the pinned list of functions that write squares[]. Induction over move histories is a paper argument. '
         'quick tier: mutators, makeMove (complete 6-way case split on the moving piece kind), MatId, serialisation; thorough adds the make/unmake identity, once as a complete 6-way case split on the moving piece kind (7-8 min per case, in parallel) and once as one query (about 18 min). deSerialize under contract for the decoded board, flags and clocks and memory safety (256 s), and deSerialize(serialize(p)) == p on those fields as a lemma over the two contracts. Not decided: FEN text round trip (std::string), the bitboards/hash/material folds recomputed by deSerialize and computeZobristHash, Position copy/assignment.',
    technique='CBMC function contracts on extracted real code (dfcc) with ghost model fields and spliced ghost updates, SAT back end',
    design='4.2')
CHECKS['C11'] = dict(
    text='Deductive proof (CBMC contracts) on the extracted text of Search::canClaimDrawRep (unbounded loop closed by a loop contract; ghost witnesses spliced after reps++), canClaimDraw50, the draw tests at the head of negaScout (fragment) '
         'and Game::insufficientMaterial: for every history list, length, parity, clock and first-new index a repetition is claimed exactly when the window rule says so (never missed, never invented), '
         '50 moves score exactly a draw unless the side to move is checkmated (then the mated score), dead material predicate equals its definition.',
    note=TRUST + 'Equal Zobrist hash is taken as the same position (A-ZOBRIST). Assumed contracts: logAndReturn returns its score at the draw tests; the legal-move count stands for MoveGen (C01). '
         'Not decided: console draw-claim text handling (Game::handleDrawCmd, getGameState), construction of the history list in setupPosition.',
    technique='CBMC function and loop contracts on extracted real code (dfcc), SAT back end',
    design='4.7')
CHECKS['C12'] = dict(
    text='Partial: installation safety only. Deductive proof (CBMC contracts) of the class invariant of TranspositionTable w.r.t. a resident on-demand tablebase on the extracted text of updateTB and the head of clear(): '
         'generator installed => generation completed and usedSize == tableSize - 5MB/16; not installed => usedSize == tableSize; every return path; updateTB returns true only with a complete table; '
         'TB byte region disjoint from hash entries (lemma); setUsedSize loop contract. Table index (class TBIndex, up to 5 men): bit layout, getSquare/setSquare, the three mirror operations act on every piece except the white king, '
         'setSquare of the white king maps it into the a1-d1-d4 triangle and applies the same symmetry to every other piece, captured pieces follow the black king, static tables symType/kingMap/kingMapInverse, '
         'sortPieces (multiset of squares per piece type preserved, equal neighbours ascending); thorough: canonize gives diagonal mirror images, and listings of equal pieces in another order, the same index. PositionValue encoding and probe score conversion.',
    note=TRUST + 'TBGenerator::generate/probeDTM are stubs with assumed contracts (generate reports completion through its return value). NOT decided: exactness of the generated distances (retrograde analysis over millions of entries), '
         'move / un-move generation on indices (TBPosition, lambdas) - the core of the property is therefore NOT decided by this check.',
    technique='CBMC function contracts (class invariant) on extracted real code (dfcc), SAT back end',
    design='4.8')
CHECKS['C20'] = dict(
    text='Partial. Deductive proof (CBMC contracts, dfcc) on the extracted text of bitSet.hpp (both instantiations used by the solver: BitSet<64,-16> and BitSet<192,0>, 17 operations each) against a set spec '
         '(ghost element + exact word-level facts), of CspSolver::makeEven/makeOdd/addMinVal/addMaxVal (stored domain is exactly the intersection), getBitVal (returns a member of the domain for every preference order; '
         'minimum for SMALL, maximum for LARGE), addIneq/addEq (exactly one stored inequality per requested one, over the same variables and equivalent to the requested relation for arbitrary values; emplace_back is an assumed stub), the loop of solve() that attaches every constraint to both of its variables (loop contract), and the SOUNDNESS of the backtracking search solveRecursive (consistency test in the quick tier, the search function itself in the thorough tier, 8 min): '
         'its consistency test accepts a value exactly when every attached constraint between assigned variables holds (fragment with loop contract and a ghost witness for every rejection), and when solveRecursive returns true '
         'every constraint is satisfied and every value lies in its domain (outer loop contract; the recursive call is replaced by the same contract).',
    note=TRUST + 'NOT decided: makeArcConsistent (ghost-solution invariant written and cut mechanically; base and exit obligations close, the inductive step did not within 15 min) and the completeness of solveRecursive (no solution missed); '
         'therefore "reports unsolvable only when no solution exists" is not decided by this check. std::vector::assign in solve() is outside the subset (its effect is the precondition of the attach loop). '
         'Data bounds of the solver groups: 10 variables, 25 constraints = the quantifier of C20.',
    technique='CBMC function and loop contracts on extracted real code and fragments (dfcc; template instantiated by the extractor; recursion by contract), SAT back end',
    design='4.11, 13.7')
CHECKS['C01'] = dict(
    text='Partial, layered. Deductive proof (CBMC contracts) on the extracted text of bitBoard.hpp/.cpp, moveGen.hpp, moveGen.cpp: layer 0 bit primitives (firstBit/lastBit/extractBit/bitCount generic variants, mirror, fill, pawn-attack masks, '
         'distances, Square methods, getDirection+dirTable) for all 2^64 masks / all square pairs; initialisation of the king/knight/pawn attack tables and the en-passant masks (fragments of staticInitialize) and their lookups; '
         'the attack test sqAttacked<wtm> (both colours) and inCheck equal the rules-of-chess spec on a fully symbolic board; the list helpers addMovesByMask/addPawnMovesByMask<wtm>/addPawnDoubleMovesByMask append exactly the moves of their mask '
         '(loop contracts, ghost move monitor); [quick tier:] the generators pseudoLegalMoves<w/b> (list == the pseudo-legal moves under the FIDE movement rules incl. castling conditions, double step, en passant, promotions, each once), '
         'and checkEvasions<w/b> (target filter == capture the single checker or interpose; list == the evasion candidates); [thorough tier:] pseudoLegalCaptures<w/b> (list == captures, en-passant captures and queen/knight promotions) - each generator verified '
         'as contiguous fragments that tile its body plus a composition group; [thorough tier:] pseudoLegalCapturesAndChecks<w/b> the same way for what is decided about it: only pseudo-legal moves, none twice, every capture / en-passant capture / queen-or-knight promotion present; the head of removeIllegal (in-check flag, king square, king rays); thorough tier adds the piece sections of checkEvasions (15 min each), givesCheck == playing the move and testing the opponent king (6-way case split, 10-36 min each) '
         'and the per-move verdict of both loops of removeIllegal (king-ray shortcut == playing the move; 12 cases, 5-60 min each).',
    note=TRUST + 'Assumed contracts: BitBoard::rookAttacks/bishopAttacks return the ray sets (magic lookup tables not proved), '
         'MoveList::addMove appends its move (A-MAXMOVES: capacity 256 never exceeded). Composition groups abstract the spec functions as uninterpreted functions (DESIGN 13.7). '
         'isLegal (verdict == playing the move, position restored) was proved ONCE for all 12 cases of its complete split (7 min to 3.5 h per case, 22 CPU hours; evidence_archive/C01-isLegal-deep.json) and is NOT re-run by the registered commands (VERIF_DEEP=1 does): a later change of isLegal goes unnoticed by them. NOT decided: in removeIllegal the play-the-move branch is replaced by its specification and the list compaction is pinned text (DESIGN 13.11); that pseudoLegalCapturesAndChecks contains every checking quiet move; FEN text layer. Counterexamples of the generator, givesCheck and inCheck groups are replayed on the real MoveGen (replay/movegen_replay).',
    technique='CBMC function and loop contracts on extracted real code and tiled fragments (dfcc), ghost move monitor, composition with uninterpreted spec functions, SAT back end',
    design='4.1, 13.7')
CHECKS['C04'] = dict(
    text='Lemmas only. Deductive proof (CBMC contracts) of the mate-score encoding chain on extracted real code: TTEntry::setScore/getScore ply shift exact for every ply pair, isCutOff rule for mate bounds, '
         'TranspositionTable::setBusy re-stores a probed record with the same score at the same ply (same mate distance), type, depth and evaluation, '
         'mate-distance pruning at the head of negaScout (fragment: beta is clipped to MATE0-(ply+1), cut exactly when alpha reaches it), '
         'internal score -> "mate N" conversion of Search::notifyPV (fragment), tablebase value -> score conversion of TBGenerator::probeDTM (fragment).',
    note=TRUST + 'NOT decided: that an announced mate is real (needs the whole search: mate-distance pruning, null move, quiescence, aspiration re-searches).',
    technique='CBMC function contracts on extracted real code and fragments (dfcc), SAT back end', design='4.3')
CHECKS['C13'] = dict(
    text='Lemmas only. Deductive proof (CBMC contracts) on extracted real code: the on-demand block of TBProbe::tbProbe (fragment) with rule50Margin/updateEvScore stores an exact mate score only if the mate completes within the '
         '100 - halfmove-clock plies left, otherwise score 0 with the matching bound type; the use of a probe result at a node of negaScout (two fragments): an exact distance-to-mate result always cuts with exactly that score, '
         'a draw / frustrated result yields a non-mate score within the swindle range, a bound cuts only when it decides the window, and otherwise only narrows the window towards the bound; swindleScore range and sign; probeDTM and notifyPV conversions.',
    note=TRUST + 'Assumed: the scores delivered by tt.probeDTM have the form proved for the probeDTM tail. NOT decided: the search below a narrowed window, root move choice (TBProbe::getSearchMoves), shortest-mate play, Syzygy/Gaviota paths.',
    technique='CBMC function contracts on extracted real code and fragments (dfcc), SAT back end', design='4.9')
CHECKS['C18'] = dict(
    text='Deductive proof (CBMC contracts) on extracted real code: PolyglotBook::getMove is total for all 2^16 codes (squares on the board, promotion piece of the mover), getPGMove/getMove inverse incl. king-takes-rook castling, '
         'serialize/deSerialize byte layout, the binary search of Book::getBookEntries (fragment, loop contract: every index read is inside the file, the search terminates for any file contents, and the index it returns is a key boundary: the entry before it has a smaller key, the entry at it does not), getWeight range, '
         'and, as a BOUNDED stand-in (at most 4 book entries and 16 legal moves; reported separately in the evidence and not counted as proved), the selection part of Book::getBookMove (fragment): the result is the empty move or a stored move that was found in the legal move list, namely the entry whose weight window [cum(i-1), cum(i)) contains the random draw (so every entry of positive weight can be returned and none of weight 0); the "should never get here" assert is unreachable.',
    note=TRUST + 'Assumed contracts: file read lambda, MoveGen legal list (C01), Random::nextInt in [0,n), ::sqrt non-negative with square <= x+1, getWeight deterministic (in the selection proof). Data bounds of the selection proof: 4 book entries, 16 legal moves. '
         'Not decided: std::fstream behaviour, built-in book map, the distribution of Random::nextInt.',
    technique='CBMC function and loop contracts on extracted real code and fragments (dfcc), SAT back end', design='4.10')
CHECKS['C07'] = dict(
    text='Partial: incremental first-layer state and feature-index symmetry only. Deductive proof (CBMC contracts) on the extracted text of nneval.cpp/.hpp: getIndex in range and invariant under colour swap and left-right mirroring; '
         'the per-perspective body of NNEvaluator::setPiece (fragment, complete 5x5 case split on the queue lengths): accumulator + queued additions - queued subtractions stays equal to the from-scratch value of the changed board '
         '(ghost model field, arbitrary weights as an uninterpreted function), including the overflow path that invalidates the state; the first loop of the lazy refresh computeL1WB (fragment): the queue is empty afterwards in every case and, '
         'with an unchanged king square, the accumulator has absorbed it; FirstLayerState::clear.',
    note=TRUST + 'BOUNDED stand-ins (reported separately in the evidence, not counted as proved): pushState/popState/forceFullEval on a stack of 8 levels instead of 400 (the 38 KB stack object is intractable). '
         'The composition "setPiece = the fragment for both perspectives" rests on the pinned loop header (paper argument; the mechanical composition group hit a CBMC defect, DESIGN 13.8). '
         'One generic 16-bit lane stands for the 256 lanes (A-LANE). Assumed: addSubWeights adds/subtracts the queued rows; the rebuild part of computeL1WB leaves a perspective consistent. '
         'NOT decided: computeL1WB/computeL1Out/layers 2-4/eval (value == from-scratch evaluation), SIMD variants, endGameEval symmetry, evaluation caches, whole-evaluation symmetry.',
    technique='CBMC function contracts on extracted real code and fragments (dfcc), ghost model field, uninterpreted weight table, complete case split, SAT back end',
    design='4.5, 13.8')
NOT_APPLICABLE = {
    'C01': 'planned (DESIGN 4.1) but not built yet in this round; no claim until its first layer is green',
    'C02': 'planned (DESIGN 4.2) but not built yet',
    'C03': 'search-result legality is an invariant of iterativeDeepening/negaScout (templates, lambdas, exceptions, helper threads); no function-level contract in the translatable subset states it (DESIGN 5)',
    'C04': 'planned (DESIGN 4.3, lemmas only) but not built yet',
    'C05': 'UCI session contract is a property of command histories over a multi-threaded std::string/iostream controller; outside CBMC contracts (DESIGN 5)',
    'C06': 'planned (DESIGN 4.4) but not built yet',
    'C07': 'planned (DESIGN 4.5) but not built yet',
    'C09': 'data-race freedom is a memory-model property of thread interleavings; dfcc is sequential (DESIGN 5)',
    'C10': 'termination/lost-wake-up freedom over schedules is liveness; not a pre/postcondition of sequential functions (DESIGN 5)',
    'C11': 'planned (DESIGN 4.7) but not built yet',
    'C12': 'planned (DESIGN 4.8) but not built yet',
    'C13': 'planned (DESIGN 4.9) but not built yet',
    'C14': 'Clear Hash == fresh start is a 2-run relational property of whole-engine state across sessions (DESIGN 5)',
    'C15': 'reverse move generation lives in capturing lambdas and std::vector<UnMove>; lambda lifting is beyond the mechanical extractor and a hand translation would be a model (DESIGN 5)',
    'C16': 'proof-game soundness spans ~6000 lines of search over STL containers; not a per-function statement (DESIGN 5)',
    'C17': 'std::string parsing/formatting and PGN trees; CBMC has no usable model of libstdc++ strings (DESIGN 5)',
    'C18': 'planned (DESIGN 4.10) but not built yet',
    'C19': 'book-builder fixed point over std::map/set/function recursion on a pointer DAG after arbitrary histories (DESIGN 5)',
    'C20': 'planned (DESIGN 4.11) but not built yet',
}

def main():
    checks = []
    for pid in sorted(CHECKS):
        c = CHECKS[pid]
        checks.append({
            'property_id': pid,
            'quick_cmd': './check %s --tier quick' % pid,
            'thorough_cmd': './check %s --tier thorough' % pid,
            'evidence_file': '/verif/evidence/%s.json' % pid,
            'replay_cmd_template': './check replay {path}',
            'engine': 'cbmc-contracts',
            'level_claimed': {'category': 'proof', 'text': c['text'], 'design_ref': 'DESIGN.md section ' + c['design']},
            'level_note': c['note'],
            'technique': c['technique'],
        })
    man = {
        'version': 1,
        'setup_cmd': 'python3 tools/selftest.py',
        'hooks': {'guard': 'TEXEL_VERIF', 'enable': 'no source hooks: contracts are spliced into the text extracted from /repo at run time (DESIGN 2.1, 10)',
                  'baseline_off_cmd': 'cmake --build /repo/_build && ctest --test-dir /repo/_build -j8 --timeout 900',
                  'source_commits': [], 'add_only': True},
        'engines': [{'name': 'cbmc-contracts', 'path': '/verif/check', 'serves_properties': sorted(CHECKS),
                     'kind_free_text': 'tools/cxx2c.py extracts the named functions of /repo to C on every run; tools/prove.py drives goto-cc, goto-instrument --dfcc (function and loop contracts) and cbmc per obligation group'}],
        'checks': checks,
        'not_applicable': [{'property_id': k, 'reason': v} for k, v in sorted(NOT_APPLICABLE.items()) if k not in CHECKS],
        'notes': 'Contract-based deductive verification with CBMC 6.11 code contracts; see DESIGN.md. Exit codes of ./check: 0 held, 1 VIOLATION, 2 undecided (extraction broken, timeout, tool error).',
    }
    with open(os.path.join(ROOT, 'MANIFEST.json'), 'w') as f:
        json.dump(man, f, indent=1)

if __name__ == '__main__':
    main()
