#!/bin/sh
# build_native.sh <src.cpp> <out> [repo]: compile a native replay driver against the real sources of /repo
src=$1; out=$2; repo=${3:-/repo}
L=$repo/lib/texellib
exec g++ -std=c++11 -O1 -g -fno-access-control -pthread -fsanitize=undefined -fno-sanitize-recover=undefined \
  -I$L -I$L/util -I$L/hw -I$L/tb -I$L/nn -I$L/book -I$L/debug -I$L/tb/gtb -I$L/tb/syzygy \
  "$src" $repo/_build/lib/texellib/libtexellib.a -o "$out" -lrt
