"""Unit tt: transposition table (C08) and the hash-score part of C04.
Functions pulled from lib/texellib/transpositionTable.hpp/.cpp, move.hpp, constants.hpp."""
from unitlib import Unit
from prove import Group

TT_H = 'lib/texellib/transpositionTable.hpp'
TT_C = 'lib/texellib/transpositionTable.cpp'
MOVE_H = 'lib/texellib/move.hpp'
CONST_H = 'lib/texellib/constants.hpp'


def build():
    U = Unit('tt')
    tr = U.tr
    U.consts(CONST_H, 'SearchConst', ['MATE0', 'UNKNOWN_SCORE'])
    U.consts(CONST_H, 'TType', ['T_EMPTY', 'T_EXACT', 'T_GE', 'T_LE'])
    U.struct(MOVE_H, 'Move', expect=[('Square', 'from_', ''), ('Square', 'to_', ''), ('int', 'promoteTo_', ''), ('int', 'score_', '')],
             default_init='{0, 0, 0, 0}')
    U.struct(TT_H, 'TTEntryStorage', expect=[('std::atomic<U64>', 'key', ''), ('std::atomic<U64>', 'data', '')])
    U.struct(TT_H, 'TTEntry', expect=[('U64', 'key', ''), ('U64', 'data', '')], default_init='{0, 0}')
    U.raw('struct TranspositionTable;\n')
    st = U.struct(TT_H, 'TTStorage', typeover={'table': ('struct TranspositionTable*', 'TranspositionTable', '')},
                  expect=[('TranspositionTable&', 'table', ''), ('U64', 'idx0', '')])
    st.ref_fields.add('table')
    U.struct(TT_H, 'TranspositionTable',
             typeover={'tableP': None, 'tbGen': None, 'ttStorage': ('struct TTStorage', 'TTStorage', '')},
             expect=[('TTEntryStorage*', 'table', ''), ('U64', 'usedSize', ''), ('int', 'usedSizeTopBits', ''),
                     ('int', 'usedSizeShift', ''), ('U64', 'usedSizeMask', ''), ('U8', 'generation', ''),
                     ('U64', 'contemptHash', ''), ('U64', 'tableSize', ''),
                     ('std::shared_ptr<TTEntryStorage>', 'tableP', ''), ('TTStorage', 'ttStorage', ''),
                     ('std::unique_ptr<TBGenerator<TTStorage>>', 'tbGen', ''), ('int', 'notUsedCnt', '')],
             extra=['_Bool ghost_tbGen_nonnull;  /* stands for tbGen != nullptr (unique_ptr omitted) */',
                    '_Bool ghost_tb_complete;    /* ghost: generate() returned true for the resident table */'])
    P = U.pull
    P(CONST_H, 'SearchConst::isWinScore', cname='isWinScore')
    P(CONST_H, 'SearchConst::isLoseScore', cname='isLoseScore')
    for m, n in (('from', 0), ('to', 0), ('promoteTo', 0), ('score', 0), ('setMove', 4), ('setScore', 1),
                 ('getCompressedMove', 0), ('setFromCompressed', 1), ('isEmpty', 0)):
        P(MOVE_H, 'Move::' + m, nparams=n)
    for m in ('clear', 'store', 'load', 'betterThan', 'getKey', 'setKey', 'getData', 'getMove', 'setMove', 'getScore',
              'setScore', 'isCutOff', 'getDepth', 'setDepth', 'getBusy', 'setBusy', 'getGeneration', 'setGeneration',
              'getType', 'setType', 'getEvalScore', 'setEvalScore', 'setBits', 'getBits'):
        P(TT_H, 'TranspositionTable::TTEntry::' + m, cname='TTEntry_' + m)
    P(TT_C, 'TranspositionTable::setUsedSize')
    P(TT_H, 'TranspositionTable::getIndex')
    P(TT_H, 'TranspositionTable::probe')
    P(TT_C, 'TranspositionTable::insert')
    P(TT_C, 'TranspositionTable::setBusy')
    P(TT_H, 'TranspositionTable::nextGeneration')
    P(TT_H, 'TranspositionTable::getByte')
    P(TT_H, 'TranspositionTable::putByte')
    P(TT_H, 'TranspositionTable::byteSize')
    P(TT_C, 'TranspositionTable::setWhiteContempt')
    P(TT_H, 'TTStorage::resize')
    return U
