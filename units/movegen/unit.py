"""Unit movegen (C01 layers 2-4): attack test, check test, legality verdicts, list helpers and generators of moveGen.hpp/.cpp."""
import sys, os, re, importlib.util
HERE = os.path.dirname(os.path.abspath(__file__))
sys.path.insert(0, os.path.dirname(HERE))
from unitlib import Unit, ClassInfo, norm
from cxx2c import ExtractError, find_function
from prove import Group
import common
from common import BB_H, BB_C, POS_H, POS_C

MG_H = 'lib/texellib/moveGen.hpp'
MG_C = 'lib/texellib/moveGen.cpp'

_spec = importlib.util.spec_from_file_location('unit_position_for_movegen', os.path.join(os.path.dirname(HERE), 'position', 'unit.py'))
posunit = importlib.util.module_from_spec(_spec); _spec.loader.exec_module(posunit)


def build():
    U = Unit('movegen')
    common.pieces(U)
    common.square_methods(U)
    common.bitboard_consts(U)
    common.bit_primitives(U)
    common.move_undo(U)
    common.matid(U)
    posunit.position_class(U)
    U.struct(POS_H, 'SerializeData', expect=[('U64', 'v', '[5]')])
    tr = U.tr
    bb = tr.classes['BitBoard']
    # attack tables and sliding lookups: used through contracts only (tables are proved in unit bbtables / assumed for the magic lookup)
    U.raw('U64 BitBoard_kingAttacksTable[64], BitBoard_knightAttacksTable[64], BitBoard_wPawnAttacksTable[64], BitBoard_bPawnAttacksTable[64];\n'
          'U64 BitBoard_squaresBetweenTable[64][64];\n')
    for t in ('kingAttacksTable', 'knightAttacksTable', 'wPawnAttacksTable', 'bPawnAttacksTable'):
        bb.statics[t] = ('BitBoard_' + t, 'U64[64]')
    bb.statics['squaresBetweenTable'] = ('BitBoard_squaresBetweenTable', 'U64[64][64]')
    for f in ('kingAttacks', 'knightAttacks', 'wPawnAttacks', 'bPawnAttacks'):
        U.pull(BB_H, 'BitBoard::' + f, nparams=1, as_static=True)
    U.pull(BB_H, 'BitBoard::squaresBetween', nparams=2, as_static=True)
    U.stub('BitBoard_rookAttacks', 'U64 BitBoard_rookAttacks(Square sq, U64 occupied)')
    U.stub('BitBoard_bishopAttacks', 'U64 BitBoard_bishopAttacks(Square sq, U64 occupied)')
    tr.declare('BitBoard_rookAttacks', 'BitBoard', 'rookAttacks', 'U64', [('Square', 'sq', False), ('U64', 'occupied', False)])
    tr.declare('BitBoard_bishopAttacks', 'BitBoard', 'bishopAttacks', 'U64', [('Square', 'sq', False), ('U64', 'occupied', False)])
    U.stub('BitBoard_getDirection', 'int BitBoard_getDirection(Square fromS, Square toS)')
    tr.declare('BitBoard_getDirection', 'BitBoard', 'getDirection', 'int', [('Square', 'fromS', False), ('Square', 'toS', False)])
    # sqMask(a, b, ..) variadic: OR of single-square masks (pinned)
    tr.variadic_or.add(('BitBoard', 'sqMask'))
    U.pull(BB_H, 'BitBoard::sqMask', nparams=1, as_static=True)
    P = U.pull
    for m, n in (('isWhiteMove', 0), ('getPiece', 1), ('getCastleMask', 0), ('getEpSquare', 0), ('getKingSq', 1), ('wKingSq', 0), ('bKingSq', 0),
                 ('whiteBB', 0), ('blackBB', 0), ('colorBB', 1), ('occupiedBB', 0), ('setWhiteMove', 1), ('setPieceB', 2), ('movePieceNotPawnB', 2),
                 ('unMakeMoveB', 2), ('setCastleMask', 1), ('setEpSquare', 1)):
        P(POS_H, 'Position::' + m, nparams=n)
    P(POS_H, 'Position::pieceTypeBB', nparams=1)
    for m, n in (('makeMoveB', 2), ('makeMove', 2), ('unMakeMove', 2), ('setPiece', 2), ('clearPiece', 1), ('movePieceNotPawn', 2)):
        P(POS_C, 'Position::' + m, nparams=n)
    # MoveList: int size + Move buffer; operator[] and addMove use placement-new on an int buffer (pinned, modelled as Move array)
    src = U.src(MG_H)
    from cxx2c import find_function
    f = find_function(src, 'MoveList::addMove', nparams=3)
    if norm(f.body) != 'static_assert(sizeof(Move) % sizeof(int) == 0, "Unsupported sizeof(Move) value"); Move& m = (*this)[size++]; new (&m) Move(from, to, promoteTo, 0);':
        raise ExtractError('pin changed: MoveList::addMove')
    f = find_function(src, 'MoveList::operator[]', nparams=1, index=0)
    if norm(f.body) != 'return ((Move*)&buf[0])[i];':
        raise ExtractError('pin changed: MoveList::operator[]')
    U.raw('struct MoveList { int size; struct Move buf[256]; };   /* pinned: buf holds MAX_MOVES=256 Move objects (placement new) */\n')
    ml = ClassInfo('MoveList'); ml.fields = {'size': ('int', ''), 'buf': ('Move[256]', '[256]')}; ml.default_init = '{0}'
    tr.add_class(ml)
    U.stub('MoveList_addMove', 'void MoveList_addMove(struct MoveList* self, Square from, Square to, int promoteTo)')
    tr.declare('MoveList_addMove', 'MoveList', 'addMove', 'void', [('Square', 'from', False), ('Square', 'to', False), ('int', 'promoteTo', False)], is_static=False)
    tr.declare('MoveList_at', 'MoveList', 'operator[]', 'Move', [('int', 'i', False)], is_static=False, ret_ref=True)
    U.raw('#define MoveList_at(ml, i) (&(ml)->buf[i])\n')
    mg = ClassInfo('MoveGen'); mg.src = src; tr.add_class(mg)
    P(MG_H, 'MoveGen::sqAttacked', nparams=3, template=True, tsubst={'wtm': 'true'}, suffix='_w', as_static=True)
    P(MG_H, 'MoveGen::sqAttacked', nparams=3, template=True, tsubst={'wtm': 'false'}, suffix='_b', as_static=True)
    P(MG_H, 'MoveGen::sqAttacked', nparams=3, template=False, cname='MoveGen_sqAttacked3', as_static=True)
    P(MG_H, 'MoveGen::sqAttacked', nparams=2, template=False, cname='MoveGen_sqAttacked2', as_static=True)
    P(MG_H, 'MoveGen::inCheck', as_static=True)
    P(MG_H, 'MoveGen::nextPiece', as_static=True)
    P(MG_H, 'MoveGen::nextPieceSafe', as_static=True)
    P(MG_C, 'MoveGen::isLegal', as_static=True)
    P(MG_C, 'MoveGen::removeIllegal', as_static=True)
    P(MG_C, 'MoveGen::givesCheck', as_static=True)
    P(MG_H, 'MoveGen::addMovesByMask', as_static=True)
    P(MG_H, 'MoveGen::addPawnDoubleMovesByMask', as_static=True)
    P(MG_H, 'MoveGen::addPawnMovesByMask', template=True, tsubst={'wtm': 'true'}, suffix='_w', as_static=True)
    P(MG_H, 'MoveGen::addPawnMovesByMask', template=True, tsubst={'wtm': 'false'}, suffix='_b', as_static=True)
    # MoveGen::checkEvasions<wtm> is verified as three contiguous fragments that tile its body (head: target filter; pieces: queen, rook,
    # bishop, king, knight sections; pawns: pawn section) plus a generated composition function whose own first statement is the
    # generator's first statement.  The tiling (nothing between / before / after the fragments except the pinned text) is checked here.
    EV_KW = dict(within='MoveGen::checkEvasions', within_kw=dict(nparams=2, template=True))
    A_HEAD, A_PIECES, A_PAWNS, A_END = r'const Square kingSq = pos\.getKingSq\(wtm\);', r'U64 squares = pos\.pieceTypeBB\(MyColor::QUEEN\);', r'const U64 pawns = ', r'#ifdef MOVELIST_DEBUG'
    ev = find_function(U.src(MG_C), 'MoveGen::checkEvasions', nparams=2, template=True)
    mh = re.search(A_HEAD, ev.body)
    if not mh or norm(ev.body[:mh.start()]) != 'using MyColor = ColorTraits<wtm>; using OtherColor = ColorTraits<!wtm>; const U64 occupied = pos.occupiedBB();':
        raise ExtractError('tiling pin changed: statements of MoveGen::checkEvasions before the king-threat computation')
    me = re.search(A_END, ev.body)
    if not me or not re.match(r'#ifdef MOVELIST_DEBUG\b[^#]*#endif\s*$', ev.body[me.start():], re.S):
        raise ExtractError('tiling pin changed: MoveGen::checkEvasions has code after the pawn section other than the MOVELIST_DEBUG block')
    if re.search(r'^\s*#\s*define\s+MOVELIST_DEBUG', U.src(MG_C).text, re.M):
        raise ExtractError('MOVELIST_DEBUG is defined: the debug block of checkEvasions would be compiled in')
    USING = 'using MyColor = ColorTraits<wtm>;\nusing OtherColor = ColorTraits<!wtm>;\n'
    for sfx, val in (('_w', 'true'), ('_b', 'false')):
        fh = U.fragment(MG_C, 'MoveGen_checkEvasions_head' + sfx, A_HEAD, A_PIECES, params=[('Position', 'pos', True), ('U64', 'occupied', False)], ret='U64',
                   cls='MoveGen', is_static=True, tsubst={'wtm': val}, prologue=USING, epilogue='\n    return validTargets;\n', **EV_KW)
        fp = U.fragment(MG_C, 'MoveGen_checkEvasions_pieces' + sfx, A_PIECES, A_PAWNS, params=[('Position', 'pos', True), ('MoveList', 'moveList', True), ('U64', 'validTargets', False), ('U64', 'occupied', False)],
                   cls='MoveGen', is_static=True, tsubst={'wtm': val}, prologue=USING, **EV_KW)
        fw = U.fragment(MG_C, 'MoveGen_checkEvasions_pawns' + sfx, A_PAWNS, A_END, params=[('Position', 'pos', True), ('MoveList', 'moveList', True), ('U64', 'validTargets', False), ('U64', 'occupied', False)],
                   cls='MoveGen', is_static=True, tsubst={'wtm': val}, prologue=USING, **EV_KW)
        for fr in (fh, fp, fw):   # make the fragments callable from the composition function
            U.tr.classes['MoveGen'].methods.setdefault((fr.cname, len(fr.params), False), {})[''] = fr
        # composition: the generator's own first statement followed by calls of the three fragments in source order
        U.fragment(MG_C, 'MoveGen_checkEvasions_tiled' + sfx, r'const U64 occupied = pos\.occupiedBB\(\);', A_HEAD, params=[('Position', 'pos', True), ('MoveList', 'moveList', True)],
                   cls='MoveGen', is_static=True, tsubst={'wtm': val},
                   epilogue='\n    U64 validTargets = MoveGen_checkEvasions_head%s(pos, occupied);\n    MoveGen_checkEvasions_pieces%s(pos, moveList, validTargets, occupied);\n    MoveGen_checkEvasions_pawns%s(pos, moveList, validTargets, occupied);\n' % (sfx, sfx, sfx), **EV_KW)
    # MoveGen::pseudoLegalMoves<wtm>: same scheme, five fragments (sliders, king incl. castling, knights, pawns) + composition
    PL_KW = dict(within='MoveGen::pseudoLegalMoves', within_kw=dict(nparams=2, template=True))
    B_SL, B_KING, B_KN, B_PAWNS = r'U64 squares = pos\.pieceTypeBB\(MyColor::QUEEN\);', r'\{\s*Square sq = pos\.getKingSq\(wtm\);', r'U64 knights = pos\.pieceTypeBB\(MyColor::KNIGHT\);', r'const U64 pawns = '
    pl = find_function(U.src(MG_C), 'MoveGen::pseudoLegalMoves', nparams=2, template=True)
    mh = re.search(B_SL, pl.body)
    if not mh or norm(pl.body[:mh.start()]) != 'using MyColor = ColorTraits<wtm>; const U64 occupied = pos.occupiedBB();':
        raise ExtractError('tiling pin changed: statements of MoveGen::pseudoLegalMoves before the queen loop')
    PLP = [('Position', 'pos', True), ('MoveList', 'moveList', True), ('U64', 'occupied', False)]
    USING1 = 'using MyColor = ColorTraits<wtm>;\n'
    for sfx, val in (('_w', 'true'), ('_b', 'false')):
        frs = [U.fragment(MG_C, 'MoveGen_pseudoLegalMoves_sliders' + sfx, B_SL, B_KING, params=PLP, cls='MoveGen', is_static=True, tsubst={'wtm': val}, prologue=USING1, **PL_KW),
               U.fragment(MG_C, 'MoveGen_pseudoLegalMoves_king' + sfx, B_KING, B_KN, params=PLP, cls='MoveGen', is_static=True, tsubst={'wtm': val}, prologue=USING1, **PL_KW),
               U.fragment(MG_C, 'MoveGen_pseudoLegalMoves_knights' + sfx, B_KN, B_PAWNS, params=PLP, cls='MoveGen', is_static=True, tsubst={'wtm': val}, prologue=USING1, **PL_KW),
               U.fragment(MG_C, 'MoveGen_pseudoLegalMoves_pawns' + sfx, B_PAWNS, None, params=PLP, cls='MoveGen', is_static=True, tsubst={'wtm': val}, prologue=USING1, **PL_KW)]
        for fr in frs:
            U.tr.classes['MoveGen'].methods.setdefault((fr.cname, len(fr.params), False), {})[''] = fr
        U.fragment(MG_C, 'MoveGen_pseudoLegalMoves_tiled' + sfx, r'const U64 occupied = pos\.occupiedBB\(\);', B_SL, params=[('Position', 'pos', True), ('MoveList', 'moveList', True)],
                   cls='MoveGen', is_static=True, tsubst={'wtm': val},
                   epilogue='\n' + ''.join('    %s(pos, moveList, occupied);\n' % fr.cname for fr in frs), **PL_KW)
    # MoveGen::pseudoLegalCaptures<wtm>: two fragments (queen/rook/bishop/knight loops; king + pawn sections) + composition.
    # The pawn section assigns the local m declared in the king section, which is in the same fragment.
    PC_KW = dict(within='MoveGen::pseudoLegalCaptures', within_kw=dict(nparams=2, template=True))
    C_SL, C_KING = r'U64 squares = pos\.pieceTypeBB\(MyColor::QUEEN\);', r'Square sq = pos\.getKingSq\(wtm\);\s*U64 m = BitBoard::kingAttacks\(sq\)'
    pc = find_function(U.src(MG_C), 'MoveGen::pseudoLegalCaptures', nparams=2, template=True)
    mh = re.search(C_SL, pc.body)
    if not mh or norm(pc.body[:mh.start()]) != 'using MyColor = ColorTraits<wtm>; const U64 occupied = pos.occupiedBB();':
        raise ExtractError('tiling pin changed: statements of MoveGen::pseudoLegalCaptures before the queen loop')
    for sfx, val in (('_w', 'true'), ('_b', 'false')):
        frs = [U.fragment(MG_C, 'MoveGen_pseudoLegalCaptures_pieces' + sfx, C_SL, C_KING, params=PLP, cls='MoveGen', is_static=True, tsubst={'wtm': val}, prologue=USING1, **PC_KW),
               U.fragment(MG_C, 'MoveGen_pseudoLegalCaptures_kingpawns' + sfx, C_KING, None, params=PLP, cls='MoveGen', is_static=True, tsubst={'wtm': val}, prologue=USING1, **PC_KW)]
        for fr in frs:
            U.tr.classes['MoveGen'].methods.setdefault((fr.cname, len(fr.params), False), {})[''] = fr
        U.fragment(MG_C, 'MoveGen_pseudoLegalCaptures_tiled' + sfx, r'const U64 occupied = pos\.occupiedBB\(\);', C_SL, params=[('Position', 'pos', True), ('MoveList', 'moveList', True)],
                   cls='MoveGen', is_static=True, tsubst={'wtm': val},
                   epilogue='\n' + ''.join('    %s(pos, moveList, occupied);\n' % fr.cname for fr in frs), **PC_KW)
    # MoveGen::removeIllegal: the per-move verdict of both loops (in check / not in check).  The else-branch plays the move
    # (makeMove; setWhiteMove; inCheck; setWhiteMove; unMakeMove - text pinned below) and is replaced by its specification
    # `legal = ghost_played_safe`; what is verified is the king-ray SHORTCUT that avoids playing the move.
    ri = find_function(U.src(MG_C), 'MoveGen::removeIllegal', nparams=2)
    PLAY = r'pos\.makeMove\(m, ui\);\s*pos\.setWhiteMove\(!pos\.isWhiteMove\(\)\);\s*legal = !inCheck\(pos\);\s*pos\.setWhiteMove\(!pos\.isWhiteMove\(\)\);\s*pos\.unMakeMove\(m, ui\);'
    if len(re.findall(PLAY, ri.body)) != 2 or len(re.findall(r'bool legal;', ri.body)) != 2 or len(re.findall(r'if \(legal\)\s*moveList\[length\+\+\] = m;', ri.body)) != 2:
        raise ExtractError('pin changed: play-the-move branches of MoveGen::removeIllegal')
    U.raw('_Bool ghost_played_safe;   /* result of playing the move and testing the own king (else-branch of removeIllegal) */\n')
    U.passthrough('ghost_played_safe')
    RIP = [('Position', 'pos', True), ('Move', 'm', True), ('Square', 'kSq', False), ('U64', 'kingAtks', False), ('Square', 'epSquare', False)]
    # statements of each branch that precede its loop (in-check branch: the opponent knights are added to kingAtks; other branch: nothing at
    # present) run once before the loop; they are prepended to the verdict fragment of that branch, so that a refactoring which precomputes
    # something there is verified together with the per-move test instead of breaking the extraction
    LOOPH = r'for \(int mi = 0; mi < moveList\.size; mi\+\+\) \{\s*const Move& m = moveList\[mi\];\s*'
    mm_ic = re.search(r'if \(isInCheck\) \{(.*?)' + LOOPH + r'bool legal;', ri.body, re.S)
    lh = list(re.finditer(LOOPH + r'bool legal;', ri.body))
    if not mm_ic or len(lh) != 2 or len(re.findall(LOOPH, ri.body)) != 2:
        raise ExtractError('pin changed: structure of MoveGen::removeIllegal (if (isInCheck) { <prelude> loop } else { <prelude> loop })')
    before2 = ri.body[:lh[1].start()]
    k = before2.rfind('} else {')     # the else of the branch: the last one before the second loop
    if k < lh[0].end():
        raise ExtractError('pin changed: else branch of MoveGen::removeIllegal not found')
    PRE_IC, PRE_NIC = mm_ic.group(1), before2[k + len('} else {'):]
    if '{' in PRE_IC + PRE_NIC and (PRE_IC + PRE_NIC).count('{') != (PRE_IC + PRE_NIC).count('}'):
        raise ExtractError('pin changed: unbalanced braces in a loop prelude of MoveGen::removeIllegal')
    # head of removeIllegal: in-check flag, king square, king rays, en-passant square (up to `if (isInCheck) {`; the statement that adds the
    # opponent knights to kingAtks in the in-check branch is pinned text, see the structural pin above)
    U.fragment(MG_C, 'MoveGen_removeIllegal_head', r'\A', r'if \(isInCheck\) \{', within='MoveGen::removeIllegal', within_kw=dict(nparams=2),
               params=[('Position', 'pos', True), ('bool', 'out_ic', True), ('Square', 'out_ksq', True), ('U64', 'out_atks', True), ('Square', 'out_ep', True)],
               cls='MoveGen', is_static=True, epilogue='\n    out_ic = isInCheck; out_ksq = kSq; out_atks = kingAtks; out_ep = epSquare;\n')
    U.fragment(MG_C, 'MoveGen_removeIllegal_verdict_ic', r'bool legal;', r'if \(legal\)\s*moveList\[length\+\+\] = m;', start_nth=(0, 2), end_first=True,
               params=RIP, ret='bool', cls='MoveGen', is_static=True, rules=[(PLAY, 'legal = ghost_played_safe;', 1)], prologue=PRE_IC, epilogue='\n    return legal;\n', within='MoveGen::removeIllegal', within_kw=dict(nparams=2))
    U.fragment(MG_C, 'MoveGen_removeIllegal_verdict_nic', r'bool legal;', r'if \(legal\)\s*moveList\[length\+\+\] = m;', start_nth=(1, 2), end_first=True,
               params=RIP, ret='bool', cls='MoveGen', is_static=True, rules=[(PLAY, 'legal = ghost_played_safe;', 1)], prologue=PRE_NIC, epilogue='\n    return legal;\n', within='MoveGen::removeIllegal', within_kw=dict(nparams=2))
    # MoveGen::pseudoLegalCapturesAndChecks<wtm>: head (discovered-check masks), sliders, king, knights, pawns + composition.
    # Decided for it: only pseudo-legal moves, none twice, and every move of the capture class is present; "every checking move is present" is NOT.
    CC_KW = dict(within='MoveGen::pseudoLegalCapturesAndChecks', within_kw=dict(nparams=2, template=True))
    D_HEAD, D_SL, D_KING, D_KN, D_PAWNS = (r'const Square oKingSq = pos\.getKingSq\(!wtm\);', r'U64 squares = pos\.pieceTypeBB\(MyColor::QUEEN\);', r'\{\s*Square sq = pos\.getKingSq\(wtm\);',
                                           r'U64 knights = pos\.pieceTypeBB\(MyColor::KNIGHT\);', r'const U64 pawns = ')
    cc = find_function(U.src(MG_C), 'MoveGen::pseudoLegalCapturesAndChecks', nparams=2, template=True)
    mh = re.search(D_HEAD, cc.body)
    if not mh or norm(cc.body[:mh.start()]) != 'using MyColor = ColorTraits<wtm>; const U64 occupied = pos.occupiedBB();':
        raise ExtractError('tiling pin changed: statements of MoveGen::pseudoLegalCapturesAndChecks before the discovered-check masks')
    PO = [('Position', 'pos', True)]; ML = [('MoveList', 'moveList', True)]; OCC = [('U64', 'occupied', False)]; DISC = [('U64', 'discovered', False)]
    for sfx, val in (('_w', 'true'), ('_b', 'false')):
        kw = dict(cls='MoveGen', is_static=True, tsubst={'wtm': val}, prologue=USING1, **CC_KW)
        fh = U.fragment(MG_C, 'MoveGen_capturesAndChecks_head' + sfx, D_HEAD, D_SL,
                        params=PO + OCC + [('Square', 'out_oksq', True), ('U64', 'out_disc', True), ('U64', 'out_kr', True), ('U64', 'out_kb', True)],
                        epilogue='\n    out_oksq = oKingSq; out_disc = discovered; out_kr = kRookAtk; out_kb = kBishAtk;\n', **kw)
        fs = U.fragment(MG_C, 'MoveGen_capturesAndChecks_sliders' + sfx, D_SL, D_KING, params=PO + ML + OCC + DISC + [('U64', 'kRookAtk', False), ('U64', 'kBishAtk', False)], **kw)
        fk = U.fragment(MG_C, 'MoveGen_capturesAndChecks_king' + sfx, D_KING, D_KN, params=PO + ML + OCC + DISC, **kw)
        fn = U.fragment(MG_C, 'MoveGen_capturesAndChecks_knights' + sfx, D_KN, D_PAWNS, params=PO + ML + [('Square', 'oKingSq', False)] + DISC, **kw)
        fp = U.fragment(MG_C, 'MoveGen_capturesAndChecks_pawns' + sfx, D_PAWNS, None, params=PO + ML + OCC + [('Square', 'oKingSq', False)] + DISC, **kw)
        for fr in (fh, fs, fk, fn, fp):
            U.tr.classes['MoveGen'].methods.setdefault((fr.cname, len(fr.params), False), {})[''] = fr
        U.fragment(MG_C, 'MoveGen_capturesAndChecks_tiled' + sfx, r'const U64 occupied = pos\.occupiedBB\(\);', D_HEAD, params=PO + ML,
                   cls='MoveGen', is_static=True, tsubst={'wtm': val},
                   epilogue=('\n    Square oKingSq; U64 discovered = 0; U64 kRookAtk = 0; U64 kBishAtk = 0;\n'
                             '    %s(pos, occupied, oKingSq, discovered, kRookAtk, kBishAtk);\n    %s(pos, moveList, occupied, discovered, kRookAtk, kBishAtk);\n'
                             '    %s(pos, moveList, occupied, discovered);\n    %s(pos, moveList, oKingSq, discovered);\n    %s(pos, moveList, occupied, oKingSq, discovered);\n') % (fh.cname, fs.cname, fk.cname, fn.cname, fp.cname), **CC_KW)
    for gen in ('pseudoLegalMoves', 'checkEvasions', 'pseudoLegalCaptures', 'pseudoLegalCapturesAndChecks'):
        P(MG_C, 'MoveGen::' + gen, nparams=2, template=True, tsubst={'wtm': 'true'}, suffix='_w', as_static=True)
        P(MG_C, 'MoveGen::' + gen, nparams=2, template=True, tsubst={'wtm': 'false'}, suffix='_b', as_static=True)
    return U


SPEC = posunit.SPEC + r'''
#pragma CPROVER check push
#pragma CPROVER check disable "pointer"
#pragma CPROVER check disable "pointer-primitive"
#pragma CPROVER check disable "pointer-overflow"
/* ---------------- rules of chess on a plain board b[64] (independent of bitboards) ---------------- */
#define ON_BOARD(x, y) ((x) >= 0 && (x) < 8 && (y) >= 0 && (y) < 8)
#define SQ(x, y) ((y) * 8 + (x))
#define BITM(s) (1ULL << (s))
#define SGN_(v) ((v) > 0 ? 1 : (v) < 0 ? -1 : 0)
#define ABS__(v) ((v) < 0 ? -(v) : (v))
static U64 spec_king_att(int sq) { U64 m = 0; int x = sq & 7, y = sq >> 3;
    for (int dx = -1; dx <= 1; dx++) for (int dy = -1; dy <= 1; dy++) if ((dx || dy) && ON_BOARD(x + dx, y + dy)) m |= BITM(SQ(x + dx, y + dy)); return m; }
static U64 spec_knight_att(int sq) { U64 m = 0; int x = sq & 7, y = sq >> 3;
    for (int dx = -2; dx <= 2; dx++) for (int dy = -2; dy <= 2; dy++) if (dx * dx + dy * dy == 5 && ON_BOARD(x + dx, y + dy)) m |= BITM(SQ(x + dx, y + dy)); return m; }
/* squares attacked by a white / black pawn standing on sq */
static U64 spec_wpawn_att(int sq) { U64 m = 0; int x = sq & 7, y = sq >> 3; if (ON_BOARD(x - 1, y + 1)) m |= BITM(SQ(x - 1, y + 1)); if (ON_BOARD(x + 1, y + 1)) m |= BITM(SQ(x + 1, y + 1)); return m; }
static U64 spec_bpawn_att(int sq) { U64 m = 0; int x = sq & 7, y = sq >> 3; if (ON_BOARD(x - 1, y - 1)) m |= BITM(SQ(x - 1, y - 1)); if (ON_BOARD(x + 1, y - 1)) m |= BITM(SQ(x + 1, y - 1)); return m; }
/* ray from sq in direction (dx,dy) over occupancy occ: all squares up to and including the first occupied one */
static U64 spec_ray(int sq, int dx, int dy, U64 occ) { U64 m = 0; int x = sq & 7, y = sq >> 3;
    for (int k = 1; k < 8; k++) { int xx = x + k * dx, yy = y + k * dy; if (!ON_BOARD(xx, yy)) break; m |= BITM(SQ(xx, yy)); if (occ & BITM(SQ(xx, yy))) break; } return m; }
static U64 spec_rook_rays(int sq, U64 occ) { return spec_ray(sq, 1, 0, occ) | spec_ray(sq, -1, 0, occ) | spec_ray(sq, 0, 1, occ) | spec_ray(sq, 0, -1, occ); }
static U64 spec_bishop_rays(int sq, U64 occ) { return spec_ray(sq, 1, 1, occ) | spec_ray(sq, -1, -1, occ) | spec_ray(sq, 1, -1, occ) | spec_ray(sq, -1, 1, occ); }
static U64 spec_between(int a, int b) {   /* squares strictly between a and b on a common line/diagonal, else 0 */
    int ax = a & 7, ay = a >> 3, bx = b & 7, by = b >> 3, dx = bx - ax, dy = by - ay;
    if (!((dx == 0) != (dy == 0) || (dx != 0 && (dx == dy || dx == -dy)))) return 0;
    int sx = SGN_(dx), sy = SGN_(dy); U64 m = 0;
    for (int k = 1; k < 8; k++) { int xx = ax + k * sx, yy = ay + k * sy; if (xx == bx && yy == by) break; if (!ON_BOARD(xx, yy)) break; m |= BITM(SQ(xx, yy)); }
    return m; }
static int spec_direction(int from, int to) {
    int dx = (to & 7) - (from & 7), dy = (to >> 3) - (from >> 3);
    if (dx == 0 && dy == 0) return 0;
    if (dx == 0 || dy == 0 || ABS__(dx) == ABS__(dy)) return 8 * SGN_(dy) + SGN_(dx);
    if ((ABS__(dx) == 1 && ABS__(dy) == 2) || (ABS__(dx) == 2 && ABS__(dy) == 1)) return 8 * dy + dx;
    return 0; }
static U64 spec_occ(const int* b) { U64 m = 0; for (int s = 0; s < 64; s++) m |= (U64)(b[s] != Piece_EMPTY) << s; return m; }
/* is square sq attacked by the given side on board b, sliders being blocked by occupancy occ */
static _Bool spec_attacked_occ(const int* b, int sq, U64 occ, _Bool byWhite) {
    int o = byWhite ? 0 : 6;
    U64 kn = spec_knight_att(sq), ki = spec_king_att(sq), pw = byWhite ? spec_bpawn_att(sq) : spec_wpawn_att(sq);
    U64 rr = spec_rook_rays(sq, occ), br = spec_bishop_rays(sq, occ);
    for (int s = 0; s < 64; s++) {
        int p = b[s]; U64 m = BITM(s);
        if (p == Piece_WKNIGHT + o && (kn & m)) return 1;
        if (p == Piece_WKING + o && (ki & m)) return 1;
        if (p == Piece_WPAWN + o && (pw & m)) return 1;
        if ((p == Piece_WROOK + o || p == Piece_WQUEEN + o) && (rr & m)) return 1;
        if ((p == Piece_WBISHOP + o || p == Piece_WQUEEN + o) && (br & m)) return 1;
    }
    return 0; }
static int spec_king_sq(const int* b, _Bool white) { for (int s = 0; s < 64; s++) if (b[s] == (white ? Piece_WKING : Piece_BKING)) return s; return -1; }
static _Bool spec_in_check_b(const int* b, _Bool whiteToMove) { int k = spec_king_sq(b, whiteToMove); return k >= 0 && spec_attacked_occ(b, k, spec_occ(b), !whiteToMove); }
#define spec_in_check(p) spec_in_check_b((p)->squares, (p)->whiteMove)
/* pseudo-legal moves of the side to move (FIDE movement rules; castling: rights, empty squares, rook present, king not in
   check and not crossing an attacked square - the destination square is left to the legality test, as in the engine) */
static _Bool spec_pseudo_legal(const struct Position* p, const struct Move* m) {
    if (!mv_shape(p, m)) return 0;
    const int* b = p->squares; int from = m->from_, to = m->to_, pc = b[from];
    _Bool w = p->whiteMove; U64 occ = spec_occ(b);
    int t = w ? pc : pc - 6;
    if (t == Piece_WPAWN) return 1;                                   /* pawn geometry is part of mv_shape */
    if (t == Piece_WKNIGHT) return (spec_knight_att(from) & BITM(to)) != 0;
    if (t == Piece_WBISHOP) return (spec_bishop_rays(from, occ) & BITM(to)) != 0;
    if (t == Piece_WROOK) return (spec_rook_rays(from, occ) & BITM(to)) != 0;
    if (t == Piece_WQUEEN) return ((spec_rook_rays(from, occ) | spec_bishop_rays(from, occ)) & BITM(to)) != 0;
    /* king */
    if (to == from + 2 || to == from - 2) {
        if ((from >> 3) != (to >> 3)) return 0;
        if (spec_attacked_occ(b, from, occ, !w)) return 0;
        return !spec_attacked_occ(b, to == from + 2 ? from + 1 : from - 1, occ, !w);
    }
    return 1; }
static void spec_board_after(const struct Position* p, const struct Move* m, int* out) { for (int s = 0; s < 64; s++) out[s] = spec_apply_sq(p, m, s); }
/* legal: pseudo-legal and the mover's king is not attacked afterwards */
static _Bool spec_leaves_king_safe(const struct Position* p, const struct Move* m) { int nb[64]; spec_board_after(p, m, nb); return !spec_in_check_b(nb, p->whiteMove); }
static _Bool spec_gives_check(const struct Position* p, const struct Move* m) { int nb[64]; spec_board_after(p, m, nb); return spec_in_check_b(nb, !p->whiteMove); }
static _Bool same_board(const struct Position* a, const struct Position* b) {
    for (int s = 0; s < 64; s++) if (a->squares[s] != b->squares[s]) return 0;
    for (int i = 1; i < 13; i++) if (a->pieceTypeBB_[i] != b->pieceTypeBB_[i]) return 0;
    return a->whiteBB_ == b->whiteBB_ && a->blackBB_ == b->blackBB_ && a->whiteMove == b->whiteMove && a->castleMask == b->castleMask && a->epSquare == b->epSquare; }
struct Position ghost_pos1;
/* complete case split of the isLegal proof: in check or not x kind of the moving piece (12 cases, each a separate run) */
#ifdef CASE_IC
#define ISLEGAL_CASE(p, m, ic) (((ic) != 0) == CASE_IC && (((p)->squares[(m)->from_] - 1) % 6) == CASE_PT)
#else
#define ISLEGAL_CASE(p, m, ic) 1
#endif
#ifdef CASE_RI
#define RI_CASE(p, m) ((((p)->squares[(m)->from_] - 1) % 6) == CASE_RI)
#else
#define RI_CASE(p, m) 1
#endif
#ifdef CASE_EVP
/* complete case split of the piece-section proof of checkEvasions on the kind of the own piece standing on ghost_m.from_ (5 = none of K,Q,R,B,N) */
#define EVP_KIND(p) (((p)->squares[ghost_m.from_] >= ((p)->whiteMove ? Piece_WKING : Piece_BKING) && (p)->squares[ghost_m.from_] <= ((p)->whiteMove ? Piece_WKNIGHT : Piece_BKNIGHT)) ? (p)->squares[ghost_m.from_] - ((p)->whiteMove ? Piece_WKING : Piece_BKING) : 5)
#define EVP_CASE(p) (EVP_KIND(p) == CASE_EVP)
#else
#define EVP_CASE(p) 1
#endif
#ifdef CASE_GC
#define GC_CASE(p, m) ((((p)->squares[(m)->from_] - 1) % 6) == CASE_GC)
#else
#define GC_CASE(p, m) 1
#endif
/* ghost move monitor (DESIGN section 3): the generators append only through MoveList::addMove; ghost_hits counts how often
   the arbitrary move ghost_m has been appended */
struct Move ghost_m; int ghost_hits;
int ghost_hits0, ghost_hitsN, ghost_ksq; U64 ghost_tg, ghost_Q0, ghost_R0, ghost_B0, ghost_N0; _Bool ghost_tQ, ghost_tR, ghost_tB, ghost_tN, ghost_tK;
#define GM_IS(f, t, p) ((f) == ghost_m.from_ && (t) == ghost_m.to_ && (p) == ghost_m.promoteTo_)
#define GM_TO_IN(mask) (ghost_m.to_ >= 0 && ghost_m.to_ < 64 && ((((U64)(mask)) >> ghost_m.to_) & 1) != 0)
#define GM_OK (ghost_m.from_ >= 0 && ghost_m.from_ < 64 && ghost_m.to_ >= 0 && ghost_m.to_ < 64 && ghost_m.promoteTo_ >= 0 && ghost_m.promoteTo_ <= 12)
#define LASTRANK(t) ((t) >= 56 || (t) < 8)
/* promotion pieces generated for a pawn move to the last rank */
#define PROMO_OK(white, all, p) ((p) == ((white) ? Piece_WQUEEN : Piece_BQUEEN) || (p) == ((white) ? Piece_WKNIGHT : Piece_BKNIGHT) || ((all) && ((p) == ((white) ? Piece_WROOK : Piece_BROOK) || (p) == ((white) ? Piece_WBISHOP : Piece_BBISHOP))))
/* squares from which a piece of the side NOT to move gives check to the mover's king */
static U64 spec_checkers(const struct Position* p) {
    const int* b = p->squares; _Bool w = p->whiteMove; int k = spec_king_sq(b, w); if (k < 0) return 0;
    int o = w ? 6 : 0; U64 occ = spec_occ(b), m = 0;
    U64 kn = spec_knight_att(k), pw = w ? spec_wpawn_att(k) : spec_bpawn_att(k), rr = spec_rook_rays(k, occ), br = spec_bishop_rays(k, occ);
    for (int s = 0; s < 64; s++) { int pc = b[s]; U64 bit = BITM(s);
        if (pc == Piece_WKNIGHT + o && (kn & bit)) m |= bit;
        if (pc == Piece_WPAWN + o && (pw & bit)) m |= bit;
        if ((pc == Piece_WROOK + o || pc == Piece_WQUEEN + o) && (rr & bit)) m |= bit;
        if ((pc == Piece_WBISHOP + o || pc == Piece_WQUEEN + o) && (br & bit)) m |= bit; }
    return m; }
/* target squares of a non-king move that answers a check: capture the single checker or interpose; none in double check */
static U64 spec_evasion_targets(const struct Position* p) {
    U64 c = spec_checkers(p); if (c == 0 || (c & (c - 1)) != 0) return 0;
    return c | spec_between(spec_king_sq(p->squares, p->whiteMove), spec_lowest(c)); }
/* candidate evasions: pseudo-legal moves that are king steps, moves to a target square, or en-passant captures
   (the list still has to pass the legality filter, as in the engine) */
static _Bool spec_evasion_candidate_vt(const struct Position* p, const struct Move* m, U64 vt) {
    if (!spec_pseudo_legal(p, m)) return 0;
    int pc = p->squares[m->from_];
    if (pc == Piece_WKING || pc == Piece_BKING) return !(m->to_ == m->from_ + 2 || m->to_ == m->from_ - 2);
    if ((pc == Piece_WPAWN || pc == Piece_BPAWN) && m->to_ == p->epSquare && (m->to_ & 7) != (m->from_ & 7)) return 1;
    return (vt & BITM(m->to_)) != 0; }
static _Bool spec_evasion_candidate(const struct Position* p, const struct Move* m) { return spec_evasion_candidate_vt(p, m, spec_evasion_targets(p)); }
#define GM_FROM_IS(p, pc) ((p)->squares[ghost_m.from_] == (pc))
#define GM_FROM_OWN(p) ((p)->whiteMove ? ((p)->squares[ghost_m.from_] >= Piece_WKING && (p)->squares[ghost_m.from_] <= Piece_WPAWN) : ((p)->squares[ghost_m.from_] >= Piece_BKING && (p)->squares[ghost_m.from_] <= Piece_BPAWN))
#define GM_FROM_PAWN(p) ((p)->squares[ghost_m.from_] == Piece_WPAWN || (p)->squares[ghost_m.from_] == Piece_BPAWN)
/* per piece kind: is ghost_m the move "piece of that kind on ghost_m.from_ goes to ghost_m.to_" as the generator should emit it,
   given the target filter tg (all ones for the plain generator) */
static _Bool spec_gm_slider(const struct Position* p, int kind, U64 tg) {
    if (!GM_OK || ghost_m.promoteTo_ != Piece_EMPTY) return 0;
    U64 occ = spec_occ(p->squares); U64 own = p->whiteMove ? spec_white(p) : spec_black(p); int f = ghost_m.from_;
    U64 a = kind == Piece_WQUEEN ? (spec_rook_rays(f, occ) | spec_bishop_rays(f, occ)) : kind == Piece_WROOK ? spec_rook_rays(f, occ)
          : kind == Piece_WBISHOP ? spec_bishop_rays(f, occ) : kind == Piece_WKNIGHT ? spec_knight_att(f) : spec_king_att(f);
    return ((a & ~own & tg) & BITM(ghost_m.to_)) != 0; }
/* pawn moves a check-evasion generator must emit for the target filter vt: pushes onto target squares, captures of
   pieces standing on target squares, en-passant captures (left to the legality filter) */
static _Bool spec_pawn_evasion(const struct Position* p, const struct Move* m, U64 vt) {
    if (!mv_shape(p, m)) return 0;
    int pc = p->squares[m->from_];
    if (pc != (p->whiteMove ? Piece_WPAWN : Piece_BPAWN)) return 0;
    if ((m->to_ & 7) != (m->from_ & 7)) return (p->squares[m->to_] != Piece_EMPTY && (vt & BITM(m->to_)) != 0) || m->to_ == p->epSquare;
    return (vt & BITM(m->to_)) != 0; }
/* class of the capture generator: pseudo-legal captures (en passant included) and promotions; promotions to queen or knight only */
static _Bool spec_capture_class(const struct Position* p, const struct Move* m) {
    if (!spec_pseudo_legal(p, m)) return 0;
    int pc = p->squares[m->from_]; _Bool w = p->whiteMove;
    if (m->promoteTo_ != Piece_EMPTY) return PROMO_OK(w, 0, m->promoteTo_);
    if (p->squares[m->to_] != Piece_EMPTY) return 1;
    return (pc == Piece_WPAWN || pc == Piece_BPAWN) && m->to_ == p->epSquare && (m->to_ & 7) != (m->from_ & 7); }
#define spec_them(p) ((p)->whiteMove ? spec_black(p) : spec_white(p))
/* the masks computed at the head of pseudoLegalCapturesAndChecks (glue of the composition: they only select which quiet moves are added) */
#define spec_oksq(p) spec_king_sq((p)->squares, !(p)->whiteMove)
static U64 spec_cc_kr(const struct Position* p) { return spec_rook_rays(spec_oksq(p), spec_occ(p->squares)); }
static U64 spec_cc_kb(const struct Position* p) { return spec_bishop_rays(spec_oksq(p), spec_occ(p->squares)); }
static U64 spec_cc_disc(const struct Position* p) {
    int k = spec_oksq(p); U64 occ = spec_occ(p->squares), kr = spec_rook_rays(k, occ), kb = spec_bishop_rays(k, occ), d = 0;
    int q = p->whiteMove ? Piece_WQUEEN : Piece_BQUEEN, r = p->whiteMove ? Piece_WROOK : Piece_BROOK, b = p->whiteMove ? Piece_WBISHOP : Piece_BBISHOP;
    U64 qr = 0, qb = 0; for (int s = 0; s < 64; s++) { if (p->squares[s] == q || p->squares[s] == r) qr |= BITM(s); if (p->squares[s] == q || p->squares[s] == b) qb |= BITM(s); }
    if ((spec_rook_rays(k, occ & ~kr) & qr) != 0) d |= kr;
    if ((spec_bishop_rays(k, occ & ~kb) & qb) != 0) d |= kb;
    return d; }
#define DOMAIN_COUNTS(p) (spec_popcount((p)->whiteBB_) <= 16 && spec_popcount((p)->blackBB_) <= 16)
#pragma CPROVER check pop
#ifdef COMPOSE_UF
/* Composition groups only (sequential composition of fragment contracts): the pure spec functions of the position are abstracted as
   uninterpreted functions of the position object and their scalar arguments, so the composition is proved for EVERY interpretation of
   them (in particular the real ones).  Valid because no fragment contract assigns *pos (frame clauses proved per fragment).  Without
   this every contract instance re-evaluates the spec functions and the solver has to prove the copies equal (did not finish in 50 min). */
_Bool __CPROVER_uninterpreted_wf_bb(const struct Position*); _Bool __CPROVER_uninterpreted_men_ok(const struct Position*); _Bool __CPROVER_uninterpreted_wf_rights(const struct Position*);
_Bool __CPROVER_uninterpreted_in_check_b(const int*, _Bool); U64 __CPROVER_uninterpreted_occ(const int*); int __CPROVER_uninterpreted_king_sq(const int*, _Bool);
U64 __CPROVER_uninterpreted_ev_targets(const struct Position*);
_Bool __CPROVER_uninterpreted_ev_cand(const struct Position*, int, int, int, U64); _Bool __CPROVER_uninterpreted_pawn_ev(const struct Position*, int, int, int, U64);
_Bool __CPROVER_uninterpreted_gm_slider(const struct Position*, int, U64, int, int, int);
_Bool __CPROVER_uninterpreted_pseudo_legal(const struct Position*, int, int, int);
#define wf_bb(p) __CPROVER_uninterpreted_wf_bb(p)
#define men_ok(p) __CPROVER_uninterpreted_men_ok(p)
#define wf_rights(p) __CPROVER_uninterpreted_wf_rights(p)
#define spec_in_check_b(b, w) __CPROVER_uninterpreted_in_check_b(b, w)
#define spec_occ(b) __CPROVER_uninterpreted_occ(b)
#define spec_king_sq(b, w) __CPROVER_uninterpreted_king_sq(b, w)
#define spec_evasion_targets(p) __CPROVER_uninterpreted_ev_targets(p)
#define spec_evasion_candidate_vt(p, m, vt) __CPROVER_uninterpreted_ev_cand(p, (m)->from_, (m)->to_, (m)->promoteTo_, vt)
#define spec_evasion_candidate(p, m) spec_evasion_candidate_vt(p, m, spec_evasion_targets(p))   /* its definition */
#define spec_pawn_evasion(p, m, vt) __CPROVER_uninterpreted_pawn_ev(p, (m)->from_, (m)->to_, (m)->promoteTo_, vt)
#define spec_gm_slider(p, kind, tg) __CPROVER_uninterpreted_gm_slider(p, kind, tg, ghost_m.from_, ghost_m.to_, ghost_m.promoteTo_)
#define spec_pseudo_legal(p, m) __CPROVER_uninterpreted_pseudo_legal(p, (m)->from_, (m)->to_, (m)->promoteTo_)
_Bool __CPROVER_uninterpreted_capture_class(const struct Position*, int, int, int); U64 __CPROVER_uninterpreted_them(const struct Position*);
#define spec_capture_class(p, m) __CPROVER_uninterpreted_capture_class(p, (m)->from_, (m)->to_, (m)->promoteTo_)
#undef spec_them
#define spec_them(p) __CPROVER_uninterpreted_them(p)
_Bool __CPROVER_uninterpreted_domain_counts(const struct Position*);
U64 __CPROVER_uninterpreted_cc_kr(const struct Position*); U64 __CPROVER_uninterpreted_cc_kb(const struct Position*); U64 __CPROVER_uninterpreted_cc_disc(const struct Position*);
#define spec_cc_kr(p) __CPROVER_uninterpreted_cc_kr(p)
#define spec_cc_kb(p) __CPROVER_uninterpreted_cc_kb(p)
#define spec_cc_disc(p) __CPROVER_uninterpreted_cc_disc(p)
U64 __CPROVER_uninterpreted_knight_att(int);
#define spec_knight_att(s) __CPROVER_uninterpreted_knight_att(s)
#undef DOMAIN_COUNTS
#define DOMAIN_COUNTS(p) __CPROVER_uninterpreted_domain_counts(p)
#endif
'''

_POS = '__CPROVER_is_fresh(pos, sizeof(*pos))'
_SQOK = '0 <= sq && sq < 64'
CONTRACTS = dict(posunit.CONTRACTS)
CONTRACTS.update({
    # attack tables and sliding lookups (proved in unit bbtables; the magic lookup is an assumed contract, see ASSUMPTIONS)
    'BitBoard_kingAttacks': {'requires': [_SQOK], 'assigns': [], 'ensures': ['__CPROVER_return_value == spec_king_att(sq)']},
    'BitBoard_knightAttacks': {'requires': [_SQOK], 'assigns': [], 'ensures': ['__CPROVER_return_value == spec_knight_att(sq)']},
    'BitBoard_wPawnAttacks': {'requires': [_SQOK], 'assigns': [], 'ensures': ['__CPROVER_return_value == spec_wpawn_att(sq)']},
    'BitBoard_bPawnAttacks': {'requires': [_SQOK], 'assigns': [], 'ensures': ['__CPROVER_return_value == spec_bpawn_att(sq)']},
    'BitBoard_squaresBetween': {'requires': ['0 <= s1 && s1 < 64 && 0 <= s2 && s2 < 64'], 'assigns': [], 'ensures': ['__CPROVER_return_value == spec_between(s1, s2)']},
    'BitBoard_rookAttacks': {'requires': [_SQOK], 'assigns': [], 'ensures': ['__CPROVER_return_value == spec_rook_rays(sq, occupied)']},
    'BitBoard_bishopAttacks': {'requires': [_SQOK], 'assigns': [], 'ensures': ['__CPROVER_return_value == spec_bishop_rays(sq, occupied)']},
    'BitBoard_getDirection': {'requires': ['0 <= fromS && fromS < 64 && 0 <= toS && toS < 64'], 'assigns': [], 'ensures': ['__CPROVER_return_value == spec_direction(fromS, toS)']},
    # assumed contract of MoveList::addMove (placement new into the int buffer, pinned text): appends exactly the given move.
    # The capacity (256) is NOT checked here: A-MAXMOVES (no position has more than 256 pseudo-legal moves) is an assumption.
    'MoveList_addMove': {'requires': ['__CPROVER_is_fresh(self, sizeof(*self))'],
                         'assigns': ['self->size', 'ghost_hits'],
                         'ensures': ['(unsigned)self->size == (unsigned)__CPROVER_old(self->size) + 1u',
                                     'ghost_hits == __CPROVER_old(ghost_hits) + (GM_IS(from, to, promoteTo) ? 1 : 0)']},
    'MoveGen_addMovesByMask': {
        'requires': ['__CPROVER_is_fresh(moveList, sizeof(*moveList))', '0 <= sq0 && sq0 < 64', 'GM_OK', '0 <= ghost_hits && ghost_hits < 2000'],
        'assigns': ['moveList->size', 'ghost_hits'],
        'ensures': ['ghost_hits == __CPROVER_old(ghost_hits) + ((ghost_m.from_ == sq0 && ghost_m.promoteTo_ == Piece_EMPTY && GM_TO_IN(mask)) ? 1 : 0)'],
        'ghost_entry': 'U64 ghost_mask0 = mask; int ghost_hits0 = ghost_hits; int ghost_size0 = moveList->size;',
        'loops': {0: {'assigns': 'mask, moveList->size, ghost_hits',
                      'invariant': ['(mask & ~ghost_mask0) == 0',
                                    'ghost_hits == ghost_hits0 + ((ghost_m.from_ == sq0 && ghost_m.promoteTo_ == Piece_EMPTY && GM_TO_IN(ghost_mask0 & ~mask)) ? 1 : 0)'],
                      }},
    },
    'MoveGen_addPawnDoubleMovesByMask': {
        'requires': ['__CPROVER_is_fresh(moveList, sizeof(*moveList))', 'delta == 16 || delta == -16', 'GM_OK', '0 <= ghost_hits && ghost_hits < 2000',
                     '(mask & (delta == -16 ? ~BitBoard_maskRow4 : ~BitBoard_maskRow5)) == 0'],
        'assigns': ['moveList->size', 'ghost_hits'],
        'ensures': ['ghost_hits == __CPROVER_old(ghost_hits) + ((GM_TO_IN(mask) && ghost_m.from_ == ghost_m.to_ + delta && ghost_m.promoteTo_ == Piece_EMPTY) ? 1 : 0)'],
        'ghost_entry': 'U64 ghost_mask0 = mask; int ghost_hits0 = ghost_hits; int ghost_size0 = moveList->size;',
        'loops': {0: {'assigns': 'mask, moveList->size, ghost_hits',
                      'invariant': ['(mask & ~ghost_mask0) == 0',
                                    'ghost_hits == ghost_hits0 + ((GM_TO_IN(ghost_mask0 & ~mask) && ghost_m.from_ == ghost_m.to_ + delta && ghost_m.promoteTo_ == Piece_EMPTY) ? 1 : 0)'],
                      }},
    },
    'MoveGen_addPawnMovesByMask_w': {
        'requires': ['__CPROVER_is_fresh(moveList, sizeof(*moveList))', 'delta >= -9 && delta <= 9', 'GM_OK', '0 <= ghost_hits && ghost_hits < 2000',
                     # every target square has its origin square on the board
                     '(delta > 0 ? (mask >> (64 - delta)) == 0 : (mask & ((1ULL << (-delta)) - 1)) == 0)'],
        'assigns': ['moveList->size', 'ghost_hits'],
        'ensures': ['ghost_hits == __CPROVER_old(ghost_hits) + ((GM_TO_IN(mask) && ghost_m.from_ == ghost_m.to_ + delta && (LASTRANK(ghost_m.to_) ? PROMO_OK(1, allPromotions, ghost_m.promoteTo_) : ghost_m.promoteTo_ == Piece_EMPTY)) ? 1 : 0)'],
        'ghost_entry': 'U64 ghost_mask0 = mask; int ghost_hits0 = ghost_hits; int ghost_size0 = moveList->size;',
        'loops': {0: {'assigns': 'promMask, moveList->size, ghost_hits',
                      'invariant': ['(promMask & ~(ghost_mask0 & BitBoard_maskRow1Row8)) == 0', 'mask == (ghost_mask0 & ~BitBoard_maskRow1Row8)',
                                    'ghost_hits == ghost_hits0 + ((GM_TO_IN((ghost_mask0 & BitBoard_maskRow1Row8) & ~promMask) && ghost_m.from_ == ghost_m.to_ + delta && PROMO_OK(1, allPromotions, ghost_m.promoteTo_)) ? 1 : 0)'],
                      },
                  1: {'assigns': 'mask, moveList->size, ghost_hits',
                      'invariant': ['(mask & ~(ghost_mask0 & ~BitBoard_maskRow1Row8)) == 0',
                                    'ghost_hits == ghost_hits0 + ((GM_TO_IN(ghost_mask0 & BitBoard_maskRow1Row8) && ghost_m.from_ == ghost_m.to_ + delta && PROMO_OK(1, allPromotions, ghost_m.promoteTo_)) ? 1 : 0) + ((GM_TO_IN((ghost_mask0 & ~BitBoard_maskRow1Row8) & ~mask) && ghost_m.from_ == ghost_m.to_ + delta && ghost_m.promoteTo_ == Piece_EMPTY) ? 1 : 0)'],
                      }},
    },
    'MoveGen_addPawnMovesByMask_b': {
        'requires': ['__CPROVER_is_fresh(moveList, sizeof(*moveList))', 'delta >= -9 && delta <= 9', 'GM_OK', '0 <= ghost_hits && ghost_hits < 2000',
                     # every target square has its origin square on the board
                     '(delta > 0 ? (mask >> (64 - delta)) == 0 : (mask & ((1ULL << (-delta)) - 1)) == 0)'],
        'assigns': ['moveList->size', 'ghost_hits'],
        'ensures': ['ghost_hits == __CPROVER_old(ghost_hits) + ((GM_TO_IN(mask) && ghost_m.from_ == ghost_m.to_ + delta && (LASTRANK(ghost_m.to_) ? PROMO_OK(0, allPromotions, ghost_m.promoteTo_) : ghost_m.promoteTo_ == Piece_EMPTY)) ? 1 : 0)'],
        'ghost_entry': 'U64 ghost_mask0 = mask; int ghost_hits0 = ghost_hits; int ghost_size0 = moveList->size;',
        'loops': {0: {'assigns': 'promMask, moveList->size, ghost_hits',
                      'invariant': ['(promMask & ~(ghost_mask0 & BitBoard_maskRow1Row8)) == 0', 'mask == (ghost_mask0 & ~BitBoard_maskRow1Row8)',
                                    'ghost_hits == ghost_hits0 + ((GM_TO_IN((ghost_mask0 & BitBoard_maskRow1Row8) & ~promMask) && ghost_m.from_ == ghost_m.to_ + delta && PROMO_OK(0, allPromotions, ghost_m.promoteTo_)) ? 1 : 0)'],
                      },
                  1: {'assigns': 'mask, moveList->size, ghost_hits',
                      'invariant': ['(mask & ~(ghost_mask0 & ~BitBoard_maskRow1Row8)) == 0',
                                    'ghost_hits == ghost_hits0 + ((GM_TO_IN(ghost_mask0 & BitBoard_maskRow1Row8) && ghost_m.from_ == ghost_m.to_ + delta && PROMO_OK(0, allPromotions, ghost_m.promoteTo_)) ? 1 : 0) + ((GM_TO_IN((ghost_mask0 & ~BitBoard_maskRow1Row8) & ~mask) && ghost_m.from_ == ghost_m.to_ + delta && ghost_m.promoteTo_ == Piece_EMPTY) ? 1 : 0)'],
                      }},
    },
    'MoveGen_sqAttacked_w': {'requires': [_POS, 'wf_bb(pos)', _SQOK], 'assigns': [],
                             'ensures': ['__CPROVER_return_value == spec_attacked_occ(pos->squares, sq, occupied, 0)']},
    'MoveGen_sqAttacked_b': {'requires': [_POS, 'wf_bb(pos)', _SQOK], 'assigns': [],
                             'ensures': ['__CPROVER_return_value == spec_attacked_occ(pos->squares, sq, occupied, 1)']},
    'MoveGen_sqAttacked3': {'requires': [_POS, 'wf_bb(pos)', 'FLAGS_OK(pos)', _SQOK], 'assigns': [],
                            'ensures': ['__CPROVER_return_value == spec_attacked_occ(pos->squares, sq, occupied, !pos->whiteMove)']},
    'MoveGen_sqAttacked2': {'requires': [_POS, 'wf_bb(pos)', 'FLAGS_OK(pos)', _SQOK], 'assigns': [],
                            'ensures': ['__CPROVER_return_value == spec_attacked_occ(pos->squares, sq, spec_occ(pos->squares), !pos->whiteMove)']},
    'MoveGen_inCheck': {'requires': [_POS, 'wf_bb(pos)', 'FLAGS_OK(pos)', 'men_ok(pos)'], 'assigns': [],
                        'ensures': ['__CPROVER_return_value == spec_in_check(pos)']},
    'MoveGen_givesCheck': {'requires': [_POS, '__CPROVER_is_fresh(m, sizeof(*m))', 'wf_bb(pos)', 'FLAGS_OK(pos)', 'men_ok(pos)', 'wf_rights(pos)',
                                        'spec_pseudo_legal(pos, m)', 'spec_leaves_king_safe(pos, m)', 'GC_CASE(pos, m)', 'same_board(pos, &ghost_pos1)',
                                        # legal position: the side not to move is not in check (the FEN reader rejects positions where the king can be captured)
                                        '!spec_in_check_b(pos->squares, !pos->whiteMove)'],
                           'assigns': [],
                           # the verdict agrees with playing the move and looking at the opponent's king
                           'ensures': ['__CPROVER_return_value == spec_gives_check(pos, m)']},
    'MoveGen_isLegal': {'requires': [_POS, '__CPROVER_is_fresh(m, sizeof(*m))', 'wf_bb(pos)', 'FLAGS_OK(pos)', 'men_ok(pos)', 'wf_rights(pos)',
                                     'spec_pseudo_legal(pos, m)', 'isInCheck == spec_in_check(pos)', 'same_board(pos, &ghost_pos1)', 'ISLEGAL_CASE(pos, m, isInCheck)'],
                        'assigns': ['*pos'],
                        # the verdict agrees with playing the move on the board; the position is left unchanged
                        'ensures': ['__CPROVER_return_value == spec_leaves_king_safe(&ghost_pos1, m)', 'same_board(pos, &ghost_pos1)']},
})


def _evasion_contract(white):
    me = 1 if white else 0
    Q, R, B, N = (('Piece_WQUEEN', 'Piece_WROOK', 'Piece_WBISHOP', 'Piece_WKNIGHT') if white else ('Piece_BQUEEN', 'Piece_BROOK', 'Piece_BBISHOP', 'Piece_BKNIGHT'))
    def acc(upto):
        # hits contributed by the piece loops already finished (in code order: queen, rook, bishop, king, knight)
        t = 'ghost_hits0'
        if upto >= 1: t += ' + ((((ghost_Q0 >> ghost_m.from_) & 1) && ghost_tQ) ? 1 : 0)'
        if upto >= 2: t += ' + ((((ghost_R0 >> ghost_m.from_) & 1) && ghost_tR) ? 1 : 0)'
        if upto >= 3: t += ' + ((((ghost_B0 >> ghost_m.from_) & 1) && ghost_tB) ? 1 : 0)'
        if upto >= 4: t += ' + ((ghost_m.from_ == ghost_ksq && ghost_tK) ? 1 : 0)'
        if upto >= 5: t += ' + ((((ghost_N0 >> ghost_m.from_) & 1) && ghost_tN) ? 1 : 0)'
        return t
    def loop(var, set0, flag, upto):
        return {'assigns': '%s, moveList->size, ghost_hits' % var,
                'invariant': ['(%s & ~%s) == 0' % (var, set0),
                              'ghost_hits == %s + (((((%s & ~%s) >> ghost_m.from_) & 1) && %s) ? 1 : 0)' % (acc(upto), set0, var, flag)]}
    return {
        'requires': ['__CPROVER_is_fresh(pos, sizeof(*pos))', '__CPROVER_is_fresh(moveList, sizeof(*moveList))', 'wf_bb(pos)', 'FLAGS_OK(pos)', 'men_ok(pos)', 'wf_rights(pos)',
                     'pos->whiteMove == %d' % me, 'spec_in_check(pos)', 'GM_OK', '0 <= ghost_hits && ghost_hits < 1000'],
        'assigns': ['moveList->size', 'ghost_hits'],
        # the generated list is exactly the set of evasion candidates, each once
        'ensures': ['ghost_hits == __CPROVER_old(ghost_hits) + (spec_evasion_candidate(pos, &ghost_m) ? 1 : 0)'],
        'ghost_defs': ['ghost_hits0 == ghost_hits', 'ghost_tg == spec_evasion_targets(pos)', 'ghost_ksq == spec_king_sq(pos->squares, %d)' % me,
                       'ghost_Q0 == pos->pieceTypeBB_[%s] && ghost_R0 == pos->pieceTypeBB_[%s] && ghost_B0 == pos->pieceTypeBB_[%s] && ghost_N0 == pos->pieceTypeBB_[%s]' % (Q, R, B, N),
                       'ghost_tQ == spec_gm_slider(pos, Piece_WQUEEN, ghost_tg)', 'ghost_tR == spec_gm_slider(pos, Piece_WROOK, ghost_tg)', 'ghost_tB == spec_gm_slider(pos, Piece_WBISHOP, ghost_tg)',
                       'ghost_tN == spec_gm_slider(pos, Piece_WKNIGHT, ghost_tg)', 'ghost_tK == spec_gm_slider(pos, Piece_WKING, ~0ULL)'],
        'loops': {0: loop('squares', 'ghost_Q0', 'ghost_tQ', 0), 1: loop('squares', 'ghost_R0', 'ghost_tR', 1), 2: loop('squares', 'ghost_B0', 'ghost_tB', 2),
                  3: loop('knights', 'ghost_N0', 'ghost_tN', 4)},
    }
CONTRACTS['MoveGen_checkEvasions_w'] = _evasion_contract(True)
CONTRACTS['MoveGen_checkEvasions_b'] = _evasion_contract(False)
for _k in ('MoveGen_checkEvasions_w', 'MoveGen_checkEvasions_b'):
    # ghost values are *defined* by (assumed) equalities in the precondition: spec functions must not be called from ghost code in the body
    CONTRACTS[_k]['requires'] += CONTRACTS[_k].pop('ghost_defs')

# the occupancy accessor agrees with the board (needs the bitboards to be consistent with the board)
CONTRACTS['Position_occupiedBB'] = {'requires': ['__CPROVER_is_fresh(self, sizeof(*self))', 'wf_bb(self)'], 'assigns': [],
                                    'ensures': ['__CPROVER_return_value == spec_occ(self->squares)']}
# DOMAIN_COUNTS: at most 16 men per side (quantifier of C01), so that counterexamples are positions of the property's domain
_EVPRE = ['__CPROVER_is_fresh(pos, sizeof(*pos))', 'wf_bb(pos)', 'FLAGS_OK(pos)', 'men_ok(pos)', 'wf_rights(pos)', '!spec_in_check_b(pos->squares, !pos->whiteMove)', 'DOMAIN_COUNTS(pos)']
for _sfx, _me in (('_w', 1), ('_b', 0)):
    _pre = _EVPRE + ['pos->whiteMove == %d' % _me]
    _mpre = _pre + ['__CPROVER_is_fresh(moveList, sizeof(*moveList))', 'occupied == spec_occ(pos->squares)', 'GM_OK', '0 <= ghost_hits && ghost_hits < 1000']
    # head: the target filter is "capture the single checker or interpose", empty in double check or when not in check
    CONTRACTS['MoveGen_checkEvasions_head' + _sfx] = {
        'requires': _pre + ['occupied == spec_occ(pos->squares)'], 'assigns': [],
        'ensures': ['__CPROVER_return_value == spec_evasion_targets(pos)']}
    # pawn section: exactly the pawn moves among the evasion candidates for the given target filter, each once
    CONTRACTS['MoveGen_checkEvasions_pawns' + _sfx] = {
        # (stated for the target filter the generator actually computes, in a position in check: counterexamples are then replayable on the whole real function)
        'requires': _mpre + ['spec_in_check(pos)', 'validTargets == spec_evasion_targets(pos)'], 'assigns': ['moveList->size', 'ghost_hits'],
        'ensures': ['ghost_hits == __CPROVER_old(ghost_hits) + (spec_pawn_evasion(pos, &ghost_m, validTargets) ? 1 : 0)',
                    'ghost_hits == __CPROVER_old(ghost_hits) + ((GM_FROM_PAWN(pos) && spec_evasion_candidate_vt(pos, &ghost_m, validTargets)) ? 1 : 0)']}
    # piece sections: exactly the non-pawn moves among the candidates, each once
    _c = _evasion_contract(bool(_me))
    _Q, _R, _B, _N = (('Piece_WQUEEN', 'Piece_WROOK', 'Piece_WBISHOP', 'Piece_WKNIGHT') if _me else ('Piece_BQUEEN', 'Piece_BROOK', 'Piece_BBISHOP', 'Piece_BKNIGHT'))
    CONTRACTS['MoveGen_checkEvasions_pieces' + _sfx] = {
        'requires': _mpre + ['EVP_CASE(pos)', 'ghost_hits0 == ghost_hits', 'ghost_ksq == spec_king_sq(pos->squares, %d)' % _me,
                             'ghost_Q0 == pos->pieceTypeBB_[%s] && ghost_R0 == pos->pieceTypeBB_[%s] && ghost_B0 == pos->pieceTypeBB_[%s] && ghost_N0 == pos->pieceTypeBB_[%s]' % (_Q, _R, _B, _N),
                             'ghost_tQ == spec_gm_slider(pos, Piece_WQUEEN, validTargets)', 'ghost_tR == spec_gm_slider(pos, Piece_WROOK, validTargets)', 'ghost_tB == spec_gm_slider(pos, Piece_WBISHOP, validTargets)',
                             'ghost_tN == spec_gm_slider(pos, Piece_WKNIGHT, validTargets)', 'ghost_tK == spec_gm_slider(pos, Piece_WKING, ~0ULL)'],
        'assigns': ['moveList->size', 'ghost_hits'],
        'ensures': ['ghost_hits == __CPROVER_old(ghost_hits) + ((!GM_FROM_PAWN(pos) && spec_evasion_candidate_vt(pos, &ghost_m, validTargets)) ? 1 : 0)'],
        'loops': _c['loops']}
    # composition of the three fragments: the generated list is exactly the set of evasion candidates, each once
    CONTRACTS['MoveGen_checkEvasions_tiled' + _sfx] = {
        # the ghost values of the piece-section contract are defined here as well (free ghost variables: no restriction of the program state)
        'requires': _pre + ['spec_in_check(pos)', '__CPROVER_is_fresh(moveList, sizeof(*moveList))', 'GM_OK', '0 <= ghost_hits && ghost_hits < 900']
                    + [r.replace('validTargets', 'spec_evasion_targets(pos)') for r in CONTRACTS['MoveGen_checkEvasions_pieces' + _sfx]['requires'] if r.startswith('ghost_')],
        'assigns': ['moveList->size', 'ghost_hits'],
        'ensures': ['ghost_hits == __CPROVER_old(ghost_hits) + (spec_evasion_candidate(pos, &ghost_m) ? 1 : 0)']}

for _sfx, _me in (('_w', 1), ('_b', 0)):
    _K, _Q, _R, _B, _N, _P = (('Piece_WKING', 'Piece_WQUEEN', 'Piece_WROOK', 'Piece_WBISHOP', 'Piece_WKNIGHT', 'Piece_WPAWN') if _me else
                              ('Piece_BKING', 'Piece_BQUEEN', 'Piece_BROOK', 'Piece_BBISHOP', 'Piece_BKNIGHT', 'Piece_BPAWN'))
    _mpre = _EVPRE + ['pos->whiteMove == %d' % _me, '__CPROVER_is_fresh(moveList, sizeof(*moveList))', 'occupied == spec_occ(pos->squares)', 'GM_OK', '0 <= ghost_hits && ghost_hits < 1000']
    _c = _evasion_contract(bool(_me))
    def _plpost(cond):
        return ['ghost_hits == __CPROVER_old(ghost_hits) + (((%s) && spec_pseudo_legal(pos, &ghost_m)) ? 1 : 0)' % cond]
    _gsl = ['ghost_hits0 == ghost_hits', 'ghost_Q0 == pos->pieceTypeBB_[%s] && ghost_R0 == pos->pieceTypeBB_[%s] && ghost_B0 == pos->pieceTypeBB_[%s]' % (_Q, _R, _B),
            'ghost_tQ == spec_gm_slider(pos, Piece_WQUEEN, ~0ULL)', 'ghost_tR == spec_gm_slider(pos, Piece_WROOK, ~0ULL)', 'ghost_tB == spec_gm_slider(pos, Piece_WBISHOP, ~0ULL)']
    _gkn = ['ghost_hitsN == ghost_hits', 'ghost_N0 == pos->pieceTypeBB_[%s]' % _N, 'ghost_tN == spec_gm_slider(pos, Piece_WKNIGHT, ~0ULL)']
    # each section emits exactly the pseudo-legal moves of its piece kinds, each once
    CONTRACTS['MoveGen_pseudoLegalMoves_sliders' + _sfx] = {
        'requires': _mpre + _gsl, 'assigns': ['moveList->size', 'ghost_hits'],
        'ensures': _plpost('GM_FROM_IS(pos, %s) || GM_FROM_IS(pos, %s) || GM_FROM_IS(pos, %s)' % (_Q, _R, _B)),
        'loops': {k: _c['loops'][k] for k in (0, 1, 2)}}
    CONTRACTS['MoveGen_pseudoLegalMoves_king' + _sfx] = {
        'requires': _mpre, 'assigns': ['moveList->size', 'ghost_hits'], 'ensures': _plpost('GM_FROM_IS(pos, %s)' % _K)}
    CONTRACTS['MoveGen_pseudoLegalMoves_knights' + _sfx] = {
        'requires': _mpre + _gkn, 'assigns': ['moveList->size', 'ghost_hits'], 'ensures': _plpost('GM_FROM_IS(pos, %s)' % _N),
        'loops': {0: {'assigns': 'knights, moveList->size, ghost_hits',
                      'invariant': ['(knights & ~ghost_N0) == 0', 'ghost_hits == ghost_hitsN + (((((ghost_N0 & ~knights) >> ghost_m.from_) & 1) && ghost_tN) ? 1 : 0)']}}}
    CONTRACTS['MoveGen_pseudoLegalMoves_pawns' + _sfx] = {
        'requires': _mpre, 'assigns': ['moveList->size', 'ghost_hits'], 'ensures': _plpost('GM_FROM_IS(pos, %s)' % _P)}
    # composition (COMPOSE_UF): the list is exactly the set of pseudo-legal moves (of own pieces: lemma pl_own), each once.
    # ghost_hits0 / ghost_hitsN are the hit counts at the entry of the slider / knight sections: the first is the entry value, the second is
    # determined by the contracts of the sections before it (an equation over the ghost values, no restriction of the program state)
    CONTRACTS['MoveGen_pseudoLegalMoves_tiled' + _sfx] = {
        'requires': _EVPRE + ['pos->whiteMove == %d' % _me, '__CPROVER_is_fresh(moveList, sizeof(*moveList))', 'GM_OK', '0 <= ghost_hits && ghost_hits < 900'] + _gsl + _gkn[1:]
                    + ['ghost_hitsN == ghost_hits + (((GM_FROM_IS(pos, %s) || GM_FROM_IS(pos, %s) || GM_FROM_IS(pos, %s) || GM_FROM_IS(pos, %s)) && spec_pseudo_legal(pos, &ghost_m)) ? 1 : 0)' % (_Q, _R, _B, _K)],
        'assigns': ['moveList->size', 'ghost_hits'],
        'ensures': _plpost('GM_FROM_OWN(pos)')}

for _sfx, _me in (('_w', 1), ('_b', 0)):
    _K, _Q, _R, _B, _N, _P = (('Piece_WKING', 'Piece_WQUEEN', 'Piece_WROOK', 'Piece_WBISHOP', 'Piece_WKNIGHT', 'Piece_WPAWN') if _me else
                              ('Piece_BKING', 'Piece_BQUEEN', 'Piece_BROOK', 'Piece_BBISHOP', 'Piece_BKNIGHT', 'Piece_BPAWN'))
    _mpre = _EVPRE + ['pos->whiteMove == %d' % _me, '__CPROVER_is_fresh(moveList, sizeof(*moveList))', 'occupied == spec_occ(pos->squares)', 'GM_OK', '0 <= ghost_hits && ghost_hits < 1000']
    def _cpost(cond):
        return ['ghost_hits == __CPROVER_old(ghost_hits) + (((%s) && spec_capture_class(pos, &ghost_m)) ? 1 : 0)' % cond]
    _g = ['ghost_hits0 == ghost_hits', 'ghost_tg == spec_them(pos)',
          'ghost_Q0 == pos->pieceTypeBB_[%s] && ghost_R0 == pos->pieceTypeBB_[%s] && ghost_B0 == pos->pieceTypeBB_[%s] && ghost_N0 == pos->pieceTypeBB_[%s]' % (_Q, _R, _B, _N),
          'ghost_tQ == spec_gm_slider(pos, Piece_WQUEEN, ghost_tg)', 'ghost_tR == spec_gm_slider(pos, Piece_WROOK, ghost_tg)', 'ghost_tB == spec_gm_slider(pos, Piece_WBISHOP, ghost_tg)',
          'ghost_tN == spec_gm_slider(pos, Piece_WKNIGHT, ghost_tg)']
    def _acc(upto):
        t = 'ghost_hits0'
        for k, (st, fl) in enumerate((('ghost_Q0', 'ghost_tQ'), ('ghost_R0', 'ghost_tR'), ('ghost_B0', 'ghost_tB'), ('ghost_N0', 'ghost_tN'))):
            if upto > k: t += ' + ((((%s >> ghost_m.from_) & 1) && %s) ? 1 : 0)' % (st, fl)
        return t
    def _lp(var, st, fl, upto):
        return {'assigns': '%s, moveList->size, ghost_hits' % var,
                'invariant': ['(%s & ~%s) == 0' % (var, st), 'ghost_hits == %s + (((((%s & ~%s) >> ghost_m.from_) & 1) && %s) ? 1 : 0)' % (_acc(upto), st, var, fl)]}
    CONTRACTS['MoveGen_pseudoLegalCaptures_pieces' + _sfx] = {
        'requires': _mpre + _g, 'assigns': ['moveList->size', 'ghost_hits'],
        'ensures': _cpost('GM_FROM_IS(pos, %s) || GM_FROM_IS(pos, %s) || GM_FROM_IS(pos, %s) || GM_FROM_IS(pos, %s)' % (_Q, _R, _B, _N)),
        'loops': {0: _lp('squares', 'ghost_Q0', 'ghost_tQ', 0), 1: _lp('squares', 'ghost_R0', 'ghost_tR', 1), 2: _lp('squares', 'ghost_B0', 'ghost_tB', 2), 3: _lp('knights', 'ghost_N0', 'ghost_tN', 3)}}
    CONTRACTS['MoveGen_pseudoLegalCaptures_kingpawns' + _sfx] = {
        'requires': _mpre, 'assigns': ['moveList->size', 'ghost_hits'], 'ensures': _cpost('GM_FROM_IS(pos, %s) || GM_FROM_IS(pos, %s)' % (_K, _P))}
    # composition (COMPOSE_UF): the list is exactly the capture class (of own pieces: lemma pl_own), each move once
    CONTRACTS['MoveGen_pseudoLegalCaptures_tiled' + _sfx] = {
        'requires': _EVPRE + ['pos->whiteMove == %d' % _me, '__CPROVER_is_fresh(moveList, sizeof(*moveList))', 'GM_OK', '0 <= ghost_hits && ghost_hits < 900'] + _g,
        'assigns': ['moveList->size', 'ghost_hits'], 'ensures': _cpost('GM_FROM_OWN(pos)')}

_RIPRE = [_POS, '__CPROVER_is_fresh(m, sizeof(*m))', 'wf_bb(pos)', 'FLAGS_OK(pos)', 'men_ok(pos)', 'wf_rights(pos)', '!spec_in_check_b(pos->squares, !pos->whiteMove)',
          'spec_pseudo_legal(pos, m)', 'kSq == spec_king_sq(pos->squares, pos->whiteMove)', 'epSquare == pos->epSquare',
          'ghost_played_safe == spec_leaves_king_safe(pos, m)', 'RI_CASE(pos, m)']
_RAYS = '(spec_rook_rays(kSq, spec_occ(pos->squares)) | spec_bishop_rays(kSq, spec_occ(pos->squares)))'
CONTRACTS['MoveGen_removeIllegal_head'] = {
    'requires': [_POS, 'wf_bb(pos)', 'FLAGS_OK(pos)', 'men_ok(pos)', '__CPROVER_is_fresh(out_ic, sizeof(*out_ic))', '__CPROVER_is_fresh(out_ksq, sizeof(*out_ksq))',
                 '__CPROVER_is_fresh(out_atks, sizeof(*out_atks))', '__CPROVER_is_fresh(out_ep, sizeof(*out_ep))'],
    'assigns': ['*out_ic', '*out_ksq', '*out_atks', '*out_ep'],
    'ensures': ['*out_ic == spec_in_check(pos)', '*out_ksq == spec_king_sq(pos->squares, pos->whiteMove)', '*out_ep == pos->epSquare',
                '*out_atks == (spec_rook_rays(*out_ksq, spec_occ(pos->squares)) | spec_bishop_rays(*out_ksq, spec_occ(pos->squares)))']}
CONTRACTS['MoveGen_removeIllegal_verdict_ic'] = {
    # in check: the branch first adds all opponent knights to the king rays (statement inside the fragment); a non-king, non-en-passant move to a
    # square outside them can neither capture the checker nor interpose
    'requires': _RIPRE + ['spec_in_check(pos)', 'kingAtks == %s' % _RAYS],
    'assigns': [], 'ensures': ['__CPROVER_return_value == spec_leaves_king_safe(pos, m)']}
CONTRACTS['MoveGen_removeIllegal_verdict_nic'] = {
    # not in check: a non-king, non-en-passant move of a piece that does not stand on a king ray cannot expose the king
    'requires': _RIPRE + ['!spec_in_check(pos)', 'kingAtks == %s' % _RAYS],
    'assigns': [], 'ensures': ['__CPROVER_return_value == spec_leaves_king_safe(pos, m)']}

for _sfx, _me in (('_w', 1), ('_b', 0)):
    _K, _Q, _R, _B, _N, _P = (('Piece_WKING', 'Piece_WQUEEN', 'Piece_WROOK', 'Piece_WBISHOP', 'Piece_WKNIGHT', 'Piece_WPAWN') if _me else
                              ('Piece_BKING', 'Piece_BQUEEN', 'Piece_BROOK', 'Piece_BBISHOP', 'Piece_BKNIGHT', 'Piece_BPAWN'))
    _pre0 = _EVPRE + ['pos->whiteMove == %d' % _me]
    _mpre = _pre0 + ['__CPROVER_is_fresh(moveList, sizeof(*moveList))', 'GM_OK', '0 <= ghost_hits && ghost_hits < 1000']
    _occ = ['occupied == spec_occ(pos->squares)']
    def _ccpost(cond):
        o = '__CPROVER_old(ghost_hits)'
        return ['ghost_hits >= %s && ghost_hits <= %s + 1' % (o, o),
                # only pseudo-legal moves of the section's piece kinds, none twice
                'ghost_hits == %s + 1 ==> ((%s) && spec_pseudo_legal(pos, &ghost_m))' % (o, cond),
                # every capture / en-passant capture / queen-or-knight promotion of these kinds is present
                '((%s) && spec_capture_class(pos, &ghost_m)) ==> ghost_hits == %s + 1' % (cond, o)]
    _DISCB = '((discovered >> ghost_m.from_) & 1)'
    def _flt(extra):
        return '(%s ? ~0ULL : (spec_them(pos) | %s))' % (_DISCB, extra)
    _gsl = ['ghost_Q0 == pos->pieceTypeBB_[%s] && ghost_R0 == pos->pieceTypeBB_[%s] && ghost_B0 == pos->pieceTypeBB_[%s]' % (_Q, _R, _B),
            'ghost_tQ == spec_gm_slider(pos, Piece_WQUEEN, %s)' % _flt('kRookAtk | kBishAtk'), 'ghost_tR == spec_gm_slider(pos, Piece_WROOK, %s)' % _flt('kRookAtk'),
            'ghost_tB == spec_gm_slider(pos, Piece_WBISHOP, %s)' % _flt('kBishAtk')]
    _gkn = ['ghost_N0 == pos->pieceTypeBB_[%s]' % _N, 'ghost_tN == spec_gm_slider(pos, Piece_WKNIGHT, %s)' % _flt('spec_knight_att(oKingSq)')]
    def _lpe(var, st, fl):
        # contribution of this loop relative to the hit count at its own entry (no snapshot of the entry value in the precondition)
        return {'assigns': '%s, moveList->size, ghost_hits' % var,
                'invariant': ['(%s & ~%s) == 0' % (var, st), 'ghost_hits == __CPROVER_loop_entry(ghost_hits) + (((((%s & ~%s) >> ghost_m.from_) & 1) && %s) ? 1 : 0)' % (st, var, fl)]}
    CONTRACTS['MoveGen_capturesAndChecks_head' + _sfx] = {
        'requires': _pre0 + _occ + ['__CPROVER_is_fresh(out_oksq, sizeof(*out_oksq))', '__CPROVER_is_fresh(out_disc, sizeof(U64))', '__CPROVER_is_fresh(out_kr, sizeof(U64))', '__CPROVER_is_fresh(out_kb, sizeof(U64))'],
        'assigns': ['*out_oksq', '*out_disc', '*out_kr', '*out_kb'],
        'ensures': ['*out_oksq == spec_oksq(pos)', '0 <= *out_oksq && *out_oksq < 64', '*out_kr == spec_cc_kr(pos) && *out_kb == spec_cc_kb(pos) && *out_disc == spec_cc_disc(pos)']}
    CONTRACTS['MoveGen_capturesAndChecks_sliders' + _sfx] = {
        'requires': _mpre + _occ + _gsl, 'assigns': ['moveList->size', 'ghost_hits'],
        'ensures': _ccpost('GM_FROM_IS(pos, %s) || GM_FROM_IS(pos, %s) || GM_FROM_IS(pos, %s)' % (_Q, _R, _B)),
        'loops': {0: _lpe('squares', 'ghost_Q0', 'ghost_tQ'), 1: _lpe('squares', 'ghost_R0', 'ghost_tR'), 2: _lpe('squares', 'ghost_B0', 'ghost_tB')}}
    CONTRACTS['MoveGen_capturesAndChecks_king' + _sfx] = {
        'requires': _mpre + _occ, 'assigns': ['moveList->size', 'ghost_hits'], 'ensures': _ccpost('GM_FROM_IS(pos, %s)' % _K)}
    CONTRACTS['MoveGen_capturesAndChecks_knights' + _sfx] = {
        'requires': _mpre + ['0 <= oKingSq && oKingSq < 64'] + _gkn,
        'assigns': ['moveList->size', 'ghost_hits'], 'ensures': _ccpost('GM_FROM_IS(pos, %s)' % _N),
        'loops': {0: _lpe('knights', 'ghost_N0', 'ghost_tN')}}
    CONTRACTS['MoveGen_capturesAndChecks_pawns' + _sfx] = {
        'requires': _mpre + _occ + ['0 <= oKingSq && oKingSq < 64'], 'assigns': ['moveList->size', 'ghost_hits'], 'ensures': _ccpost('GM_FROM_IS(pos, %s)' % _P)}
    def _sub(r):
        return r.replace('kRookAtk', 'spec_cc_kr(pos)').replace('kBishAtk', 'spec_cc_kb(pos)').replace('discovered', 'spec_cc_disc(pos)').replace('oKingSq', 'spec_oksq(pos)')
    CONTRACTS['MoveGen_capturesAndChecks_tiled' + _sfx] = {
        # the ghost flags of the slider and knight sections are defined for the masks the head computes (free ghost variables)
        'requires': _pre0 + ['__CPROVER_is_fresh(moveList, sizeof(*moveList))', 'GM_OK', '0 <= ghost_hits && ghost_hits < 900'] + [_sub(r) for r in _gsl + _gkn],
        'assigns': ['moveList->size', 'ghost_hits'], 'ensures': _ccpost('GM_FROM_OWN(pos)')}

HARNESS = posunit.HARNESS.split('void h_setPiece')[0] + r'''
void h_sqAttacked_w(void) { struct Position* p; int sq; U64 occ; havoc_tables(); MoveGen_sqAttacked_w(p, sq, occ); CANARY_POINT; }
void h_sqAttacked_b(void) { struct Position* p; int sq; U64 occ; havoc_tables(); MoveGen_sqAttacked_b(p, sq, occ); CANARY_POINT; }
void h_sqAttacked3(void) { struct Position* p; int sq; U64 occ; havoc_tables(); MoveGen_sqAttacked3(p, sq, occ); CANARY_POINT; }
void h_sqAttacked2(void) { struct Position* p; int sq; havoc_tables(); MoveGen_sqAttacked2(p, sq); CANARY_POINT; }
void h_inCheck(void) { struct Position* p; havoc_tables(); MoveGen_inCheck(p); CANARY_POINT; }
void h_givesCheck(void) { struct Position* p; struct Move* m; havoc_tables(); __CPROVER_havoc_object(&ghost_pos1); MoveGen_givesCheck(p, m); CANARY_POINT; }
void h_isLegal(void) { struct Position* p; struct Move* m; _Bool ic = (nondet_int() != 0); havoc_tables(); __CPROVER_havoc_object(&ghost_pos1); MoveGen_isLegal(p, m, ic); CANARY_POINT; }
'''
HARNESS += r'''
static void havoc_gm(void) { __CPROVER_havoc_object(&ghost_m); ghost_hits = nondet_int(); ghost_hits0 = nondet_int(); ghost_hitsN = nondet_int(); ghost_ksq = nondet_int(); ghost_tg = nondet_u64(); ghost_Q0 = nondet_u64(); ghost_R0 = nondet_u64(); ghost_B0 = nondet_u64(); ghost_N0 = nondet_u64();
    ghost_tQ = (nondet_int() != 0); ghost_tR = (nondet_int() != 0); ghost_tB = (nondet_int() != 0); ghost_tN = (nondet_int() != 0); ghost_tK = (nondet_int() != 0); }
void h_addMovesByMask(void) { struct MoveList* ml; int sq0; U64 mask; havoc_tables(); havoc_gm(); MoveGen_addMovesByMask(ml, sq0, mask); CANARY_POINT; }
void h_addPawnDouble(void) { struct MoveList* ml; int d; U64 mask; havoc_tables(); havoc_gm(); MoveGen_addPawnDoubleMovesByMask(ml, mask, d); CANARY_POINT; }
void h_addPawnMoves_w(void) { struct MoveList* ml; int d; U64 mask; _Bool all = (nondet_int() != 0); havoc_tables(); havoc_gm(); MoveGen_addPawnMovesByMask_w(ml, mask, d, all); CANARY_POINT; }
void h_addPawnMoves_b(void) { struct MoveList* ml; int d; U64 mask; _Bool all = (nondet_int() != 0); havoc_tables(); havoc_gm(); MoveGen_addPawnMovesByMask_b(ml, mask, d, all); CANARY_POINT; }
'''
HARNESS += r'''
void h_evasion_pawns_w(void) { struct Position* p; struct MoveList* ml; U64 vt, occ; havoc_tables(); havoc_gm(); MoveGen_checkEvasions_pawns_w(p, ml, vt, occ); CANARY_POINT; }
void h_evasion_pawns_b(void) { struct Position* p; struct MoveList* ml; U64 vt, occ; havoc_tables(); havoc_gm(); MoveGen_checkEvasions_pawns_b(p, ml, vt, occ); CANARY_POINT; }
void h_pl_sliders_w(void) { struct Position* p; struct MoveList* ml; U64 occ; havoc_tables(); havoc_gm(); MoveGen_pseudoLegalMoves_sliders_w(p, ml, occ); CANARY_POINT; }
void h_pl_sliders_b(void) { struct Position* p; struct MoveList* ml; U64 occ; havoc_tables(); havoc_gm(); MoveGen_pseudoLegalMoves_sliders_b(p, ml, occ); CANARY_POINT; }
void h_pl_king_w(void) { struct Position* p; struct MoveList* ml; U64 occ; havoc_tables(); havoc_gm(); MoveGen_pseudoLegalMoves_king_w(p, ml, occ); CANARY_POINT; }
void h_pl_king_b(void) { struct Position* p; struct MoveList* ml; U64 occ; havoc_tables(); havoc_gm(); MoveGen_pseudoLegalMoves_king_b(p, ml, occ); CANARY_POINT; }
void h_pl_knights_w(void) { struct Position* p; struct MoveList* ml; U64 occ; havoc_tables(); havoc_gm(); MoveGen_pseudoLegalMoves_knights_w(p, ml, occ); CANARY_POINT; }
void h_pl_knights_b(void) { struct Position* p; struct MoveList* ml; U64 occ; havoc_tables(); havoc_gm(); MoveGen_pseudoLegalMoves_knights_b(p, ml, occ); CANARY_POINT; }
void h_pl_pawns_w(void) { struct Position* p; struct MoveList* ml; U64 occ; havoc_tables(); havoc_gm(); MoveGen_pseudoLegalMoves_pawns_w(p, ml, occ); CANARY_POINT; }
void h_pl_pawns_b(void) { struct Position* p; struct MoveList* ml; U64 occ; havoc_tables(); havoc_gm(); MoveGen_pseudoLegalMoves_pawns_b(p, ml, occ); CANARY_POINT; }
void h_pl_tiled_w(void) { struct Position* p; struct MoveList* ml; havoc_tables(); havoc_gm(); MoveGen_pseudoLegalMoves_tiled_w(p, ml); CANARY_POINT; }
void h_pl_tiled_b(void) { struct Position* p; struct MoveList* ml; havoc_tables(); havoc_gm(); MoveGen_pseudoLegalMoves_tiled_b(p, ml); CANARY_POINT; }
/* lemma (real spec): a pseudo-legal move moves a piece of the side to move */
void h_lemma_pl_own(void) { struct Position p; __CPROVER_havoc_object(&p); havoc_gm(); __CPROVER_assume(FLAGS_OK(&p) && GM_OK);
    __CPROVER_assert(!spec_pseudo_legal(&p, &ghost_m) || GM_FROM_OWN(&p), "lemma: pseudo-legal moves move an own piece"); CANARY_POINT; }
void h_pc_pieces_w(void) { struct Position* p; struct MoveList* ml; U64 occ; havoc_tables(); havoc_gm(); MoveGen_pseudoLegalCaptures_pieces_w(p, ml, occ); CANARY_POINT; }
void h_pc_pieces_b(void) { struct Position* p; struct MoveList* ml; U64 occ; havoc_tables(); havoc_gm(); MoveGen_pseudoLegalCaptures_pieces_b(p, ml, occ); CANARY_POINT; }
void h_pc_kingpawns_w(void) { struct Position* p; struct MoveList* ml; U64 occ; havoc_tables(); havoc_gm(); MoveGen_pseudoLegalCaptures_kingpawns_w(p, ml, occ); CANARY_POINT; }
void h_pc_kingpawns_b(void) { struct Position* p; struct MoveList* ml; U64 occ; havoc_tables(); havoc_gm(); MoveGen_pseudoLegalCaptures_kingpawns_b(p, ml, occ); CANARY_POINT; }
void h_pc_tiled_w(void) { struct Position* p; struct MoveList* ml; havoc_tables(); havoc_gm(); MoveGen_pseudoLegalCaptures_tiled_w(p, ml); CANARY_POINT; }
void h_pc_tiled_b(void) { struct Position* p; struct MoveList* ml; havoc_tables(); havoc_gm(); MoveGen_pseudoLegalCaptures_tiled_b(p, ml); CANARY_POINT; }
void h_ri_head(void) { struct Position* p; _Bool* a; int* b; U64* c; int* d; havoc_tables(); MoveGen_removeIllegal_head(p, a, b, c, d); CANARY_POINT; }
void h_ri_ic(void) { struct Position* p; struct Move* m; int k, e; U64 a; havoc_tables(); ghost_played_safe = (nondet_int() != 0); MoveGen_removeIllegal_verdict_ic(p, m, k, a, e); CANARY_POINT; }
void h_ri_nic(void) { struct Position* p; struct Move* m; int k, e; U64 a; havoc_tables(); ghost_played_safe = (nondet_int() != 0); MoveGen_removeIllegal_verdict_nic(p, m, k, a, e); CANARY_POINT; }
void h_cc_head_w(void) { struct Position* p; U64 occ; Square* a; U64 *b, *c, *d; havoc_tables(); MoveGen_capturesAndChecks_head_w(p, occ, a, b, c, d); CANARY_POINT; }
void h_cc_sliders_w(void) { struct Position* p; struct MoveList* ml; U64 occ, di, kr, kb; havoc_tables(); havoc_gm(); MoveGen_capturesAndChecks_sliders_w(p, ml, occ, di, kr, kb); CANARY_POINT; }
void h_cc_king_w(void) { struct Position* p; struct MoveList* ml; U64 occ, di; havoc_tables(); havoc_gm(); MoveGen_capturesAndChecks_king_w(p, ml, occ, di); CANARY_POINT; }
void h_cc_knights_w(void) { struct Position* p; struct MoveList* ml; int ok; U64 di; havoc_tables(); havoc_gm(); MoveGen_capturesAndChecks_knights_w(p, ml, ok, di); CANARY_POINT; }
void h_cc_pawns_w(void) { struct Position* p; struct MoveList* ml; int ok; U64 occ, di; havoc_tables(); havoc_gm(); MoveGen_capturesAndChecks_pawns_w(p, ml, occ, ok, di); CANARY_POINT; }
void h_cc_tiled_w(void) { struct Position* p; struct MoveList* ml; havoc_tables(); havoc_gm(); MoveGen_capturesAndChecks_tiled_w(p, ml); CANARY_POINT; }
void h_cc_head_b(void) { struct Position* p; U64 occ; Square* a; U64 *b, *c, *d; havoc_tables(); MoveGen_capturesAndChecks_head_b(p, occ, a, b, c, d); CANARY_POINT; }
void h_cc_sliders_b(void) { struct Position* p; struct MoveList* ml; U64 occ, di, kr, kb; havoc_tables(); havoc_gm(); MoveGen_capturesAndChecks_sliders_b(p, ml, occ, di, kr, kb); CANARY_POINT; }
void h_cc_king_b(void) { struct Position* p; struct MoveList* ml; U64 occ, di; havoc_tables(); havoc_gm(); MoveGen_capturesAndChecks_king_b(p, ml, occ, di); CANARY_POINT; }
void h_cc_knights_b(void) { struct Position* p; struct MoveList* ml; int ok; U64 di; havoc_tables(); havoc_gm(); MoveGen_capturesAndChecks_knights_b(p, ml, ok, di); CANARY_POINT; }
void h_cc_pawns_b(void) { struct Position* p; struct MoveList* ml; int ok; U64 occ, di; havoc_tables(); havoc_gm(); MoveGen_capturesAndChecks_pawns_b(p, ml, occ, ok, di); CANARY_POINT; }
void h_cc_tiled_b(void) { struct Position* p; struct MoveList* ml; havoc_tables(); havoc_gm(); MoveGen_capturesAndChecks_tiled_b(p, ml); CANARY_POINT; }
void h_occupiedBB(void) { struct Position* p; havoc_tables(); Position_occupiedBB(p); CANARY_POINT; }
void h_evasion_head_w(void) { struct Position* p; U64 occ; havoc_tables(); MoveGen_checkEvasions_head_w(p, occ); CANARY_POINT; }
void h_evasion_head_b(void) { struct Position* p; U64 occ; havoc_tables(); MoveGen_checkEvasions_head_b(p, occ); CANARY_POINT; }
void h_evasion_pieces_w(void) { struct Position* p; struct MoveList* ml; U64 vt, occ; havoc_tables(); havoc_gm(); MoveGen_checkEvasions_pieces_w(p, ml, vt, occ); CANARY_POINT; }
void h_evasion_pieces_b(void) { struct Position* p; struct MoveList* ml; U64 vt, occ; havoc_tables(); havoc_gm(); MoveGen_checkEvasions_pieces_b(p, ml, vt, occ); CANARY_POINT; }
void h_evasion_tiled_w(void) { struct Position* p; struct MoveList* ml; havoc_tables(); havoc_gm(); MoveGen_checkEvasions_tiled_w(p, ml); CANARY_POINT; }
void h_evasion_tiled_b(void) { struct Position* p; struct MoveList* ml; havoc_tables(); havoc_gm(); MoveGen_checkEvasions_tiled_b(p, ml); CANARY_POINT; }
void h_checkEvasions_w(void) { struct Position* p; struct MoveList* ml; havoc_tables(); havoc_gm(); MoveGen_checkEvasions_w(p, ml); CANARY_POINT; }
void h_checkEvasions_b(void) { struct Position* p; struct MoveList* ml; havoc_tables(); havoc_gm(); MoveGen_checkEvasions_b(p, ml); CANARY_POINT; }
'''
UNWIND = dict(posunit.UNWIND)
UNWIND.update({'spec_cc_disc': 65, 'spec_king_att': 4, 'spec_knight_att': 6, 'spec_ray': 9, 'spec_between': 9, 'spec_occ': 65, 'spec_attacked_occ': 65, 'spec_king_sq': 65,
               'spec_board_after': 65, 'same_board': 65, 'spec_checkers': 65})
_ATT = ('BitBoard_kingAttacks', 'BitBoard_knightAttacks', 'BitBoard_wPawnAttacks', 'BitBoard_bPawnAttacks', 'BitBoard_rookAttacks', 'BitBoard_bishopAttacks')
GROUPS = [
    Group('sqAttacked_w', 'h_sqAttacked_w', enforce='MoveGen_sqAttacked_w', replace=_ATT, min_props=5, timeout=1800),
    Group('sqAttacked_b', 'h_sqAttacked_b', enforce='MoveGen_sqAttacked_b', replace=_ATT, min_props=5, timeout=1800),
    Group('sqAttacked3', 'h_sqAttacked3', enforce='MoveGen_sqAttacked3', replace=('MoveGen_sqAttacked_w', 'MoveGen_sqAttacked_b'), min_props=3),
    Group('sqAttacked2', 'h_sqAttacked2', enforce='MoveGen_sqAttacked2', replace=('MoveGen_sqAttacked3',), min_props=3),
    Group('inCheck', 'h_inCheck', enforce='MoveGen_inCheck', replace=('MoveGen_sqAttacked2', 'BitBoard_firstSquare'), min_props=3),
]
for _n, _h, _f in (('addMovesByMask', 'h_addMovesByMask', 'MoveGen_addMovesByMask'), ('addPawnDoubleMovesByMask', 'h_addPawnDouble', 'MoveGen_addPawnDoubleMovesByMask'),
                   ('addPawnMovesByMask_w', 'h_addPawnMoves_w', 'MoveGen_addPawnMovesByMask_w'), ('addPawnMovesByMask_b', 'h_addPawnMoves_b', 'MoveGen_addPawnMovesByMask_b')):
    GROUPS.append(Group(_n, _h, enforce=_f, replace=('MoveList_addMove', 'BitBoard_extractSquare'), loop_contracts=True, min_props=10, expect_loop_props=1, timeout=1800))
_HELP = ('MoveGen_addMovesByMask', 'MoveGen_addPawnDoubleMovesByMask', 'MoveGen_addPawnMovesByMask_w', 'MoveGen_addPawnMovesByMask_b', 'MoveList_addMove',
         'BitBoard_extractSquare', 'BitBoard_firstSquare', 'BitBoard_squaresBetween')
for _sfx in ('_w', '_b'):
    GROUPS.append(Group('checkEvasions_pawns' + _sfx, 'h_evasion_pawns' + _sfx, enforce='MoveGen_checkEvasions_pawns' + _sfx,
                        replace=('MoveGen_addPawnDoubleMovesByMask', 'MoveGen_addPawnMovesByMask_w', 'MoveGen_addPawnMovesByMask_b'), min_props=10, timeout=7200))
for _sfx in ('_w', '_b'):
    _pf = 'MoveGen_pseudoLegalMoves_'
    GROUPS.append(Group('pseudoLegalMoves_sliders' + _sfx, 'h_pl_sliders' + _sfx, enforce=_pf + 'sliders' + _sfx, replace=_ATT + ('MoveGen_addMovesByMask', 'BitBoard_extractSquare'),
                        loop_contracts=True, min_props=10, expect_loop_props=3, timeout=7200))
    GROUPS.append(Group('pseudoLegalMoves_king' + _sfx, 'h_pl_king' + _sfx, enforce=_pf + 'king' + _sfx, replace=_ATT + ('MoveGen_addMovesByMask', 'MoveList_addMove', 'MoveGen_sqAttacked2'), min_props=10, timeout=7200))
    GROUPS.append(Group('pseudoLegalMoves_knights' + _sfx, 'h_pl_knights' + _sfx, enforce=_pf + 'knights' + _sfx, replace=_ATT + ('MoveGen_addMovesByMask', 'BitBoard_extractSquare'),
                        loop_contracts=True, min_props=10, expect_loop_props=1, timeout=7200))
    GROUPS.append(Group('pseudoLegalMoves_pawns' + _sfx, 'h_pl_pawns' + _sfx, enforce=_pf + 'pawns' + _sfx,
                        replace=('MoveGen_addPawnDoubleMovesByMask', 'MoveGen_addPawnMovesByMask_w', 'MoveGen_addPawnMovesByMask_b'), min_props=10, timeout=7200))
    GROUPS.append(Group('pseudoLegalMoves_tiled' + _sfx, 'h_pl_tiled' + _sfx, enforce=_pf + 'tiled' + _sfx, defines=('COMPOSE_UF=1',),
                        replace=('Position_occupiedBB',) + tuple(_pf + x + _sfx for x in ('sliders', 'king', 'knights', 'pawns')), min_props=5, timeout=7200,
                        note='composition of the four fragment contracts; spec functions uninterpreted (COMPOSE_UF)'))
for _sfx in ('_w', '_b'):
    _pf = 'MoveGen_pseudoLegalCaptures_'
    GROUPS.append(Group('pseudoLegalCaptures_pieces' + _sfx, 'h_pc_pieces' + _sfx, enforce=_pf + 'pieces' + _sfx, tier='thorough', replace=_ATT + ('MoveGen_addMovesByMask', 'BitBoard_extractSquare'),
                        loop_contracts=True, min_props=10, expect_loop_props=4, timeout=7200))
    GROUPS.append(Group('pseudoLegalCaptures_kingpawns' + _sfx, 'h_pc_kingpawns' + _sfx, enforce=_pf + 'kingpawns' + _sfx, tier='thorough',
                        replace=_ATT + ('MoveGen_addMovesByMask', 'MoveGen_addPawnDoubleMovesByMask', 'MoveGen_addPawnMovesByMask_w', 'MoveGen_addPawnMovesByMask_b'), min_props=10, timeout=7200))
    GROUPS.append(Group('pseudoLegalCaptures_tiled' + _sfx, 'h_pc_tiled' + _sfx, enforce=_pf + 'tiled' + _sfx, tier='thorough', defines=('COMPOSE_UF=1',),
                        replace=('Position_occupiedBB', _pf + 'pieces' + _sfx, _pf + 'kingpawns' + _sfx), min_props=5, timeout=7200,
                        note='composition of the two fragment contracts; spec functions uninterpreted (COMPOSE_UF)'))
GROUPS.append(Group('removeIllegal_head', 'h_ri_head', enforce='MoveGen_removeIllegal_head', replace=_ATT + ('MoveGen_inCheck', 'Position_occupiedBB', 'BitBoard_firstSquare'), min_props=5, timeout=1800))
for _n in ('ic', 'nic'):
    GROUPS.append(Group('removeIllegal_verdict_' + _n, 'h_ri_' + _n, enforce='MoveGen_removeIllegal_verdict_' + _n, min_props=5, timeout=14400, tier='thorough',
                        cases=('case', [('CASE_RI=%d' % pt,) for pt in range(6)])))
for _sfx in ('_w', '_b'):
    _pf = 'MoveGen_capturesAndChecks_'
    _PAWNH = ('MoveGen_addPawnDoubleMovesByMask', 'MoveGen_addPawnMovesByMask_w', 'MoveGen_addPawnMovesByMask_b')
    GROUPS.append(Group('capturesAndChecks_head' + _sfx, 'h_cc_head' + _sfx, enforce=_pf + 'head' + _sfx, tier='thorough', replace=_ATT + ('BitBoard_firstSquare',), min_props=5, timeout=7200))
    GROUPS.append(Group('capturesAndChecks_sliders' + _sfx, 'h_cc_sliders' + _sfx, enforce=_pf + 'sliders' + _sfx, tier='thorough', replace=_ATT + ('MoveGen_addMovesByMask', 'BitBoard_extractSquare'),
                        loop_contracts=True, min_props=10, expect_loop_props=3, timeout=7200))
    GROUPS.append(Group('capturesAndChecks_king' + _sfx, 'h_cc_king' + _sfx, enforce=_pf + 'king' + _sfx, tier='thorough', replace=_ATT + ('MoveGen_addMovesByMask', 'MoveList_addMove', 'MoveGen_sqAttacked2', 'BitBoard_firstSquare'), min_props=10, timeout=7200))
    GROUPS.append(Group('capturesAndChecks_knights' + _sfx, 'h_cc_knights' + _sfx, enforce=_pf + 'knights' + _sfx, tier='thorough', replace=_ATT + ('MoveGen_addMovesByMask', 'BitBoard_extractSquare'),
                        loop_contracts=True, min_props=10, expect_loop_props=1, timeout=7200))
    GROUPS.append(Group('capturesAndChecks_pawns' + _sfx, 'h_cc_pawns' + _sfx, enforce=_pf + 'pawns' + _sfx, tier='thorough', replace=_ATT + _PAWNH, min_props=10, timeout=7200))
    GROUPS.append(Group('capturesAndChecks_tiled' + _sfx, 'h_cc_tiled' + _sfx, enforce=_pf + 'tiled' + _sfx, tier='thorough', defines=('COMPOSE_UF=1',),
                        replace=('Position_occupiedBB',) + tuple(_pf + x + _sfx for x in ('head', 'sliders', 'king', 'knights', 'pawns')), min_props=5, timeout=7200,
                        note='composition of the five fragment contracts; spec functions uninterpreted (COMPOSE_UF)'))
GROUPS.append(Group('lemma_pl_own', 'h_lemma_pl_own', min_props=1))
GROUPS.append(Group('occupiedBB', 'h_occupiedBB', enforce='Position_occupiedBB', min_props=2))
for _sfx in ('_w', '_b'):
    GROUPS.append(Group('checkEvasions_head' + _sfx, 'h_evasion_head' + _sfx, enforce='MoveGen_checkEvasions_head' + _sfx,
                        replace=_ATT + ('BitBoard_firstSquare', 'BitBoard_squaresBetween'), min_props=10, timeout=7200))
    GROUPS.append(Group('checkEvasions_pieces' + _sfx, 'h_evasion_pieces' + _sfx, enforce='MoveGen_checkEvasions_pieces' + _sfx, tier='thorough',
                        replace=_ATT + ('MoveGen_addMovesByMask', 'BitBoard_extractSquare'), loop_contracts=True, min_props=10, expect_loop_props=4, timeout=10800))
    # (a 6-way case split of the piece sections on the kind of the moving piece was tried: the queen case alone takes longer than the unsplit proof)
    GROUPS.append(Group('checkEvasions_tiled' + _sfx, 'h_evasion_tiled' + _sfx, enforce='MoveGen_checkEvasions_tiled' + _sfx, defines=('COMPOSE_UF=1',),
                        replace=('Position_occupiedBB', 'MoveGen_checkEvasions_head' + _sfx, 'MoveGen_checkEvasions_pieces' + _sfx, 'MoveGen_checkEvasions_pawns' + _sfx), min_props=5, timeout=7200,
                        note='composition of the three fragment contracts; spec functions uninterpreted (COMPOSE_UF)'))
for _sfx in ('_w', '_b'):
    GROUPS.append(Group('checkEvasions' + _sfx, 'h_checkEvasions' + _sfx, enforce='MoveGen_checkEvasions' + _sfx, replace=_ATT + _HELP, loop_contracts=True,
                        min_props=20, expect_loop_props=4, timeout=7200))
GROUPS.append(Group('givesCheck', 'h_givesCheck', enforce='MoveGen_givesCheck', replace=('BitBoard_getDirection', 'BitBoard_firstSquare'), min_props=10, timeout=14400,
                    unwindset={'MoveGen_nextPiece': 9, 'MoveGen_nextPieceSafe': 9}, cases=('case', [('CASE_GC=%d' % pt,) for pt in range(6)]), tier='thorough'))
GROUPS.append(Group('isLegal', 'h_isLegal', enforce='MoveGen_isLegal', tier='deep',
                    replace=_ATT + ('MoveGen_inCheck', 'MoveGen_sqAttacked3', 'BitBoard_getDirection', 'BitBoard_firstSquare'), min_props=10, timeout=18000,
                    cases=('case', [('CASE_IC=%d' % ic, 'CASE_PT=%d' % pt) for ic in (0, 1) for pt in range(6)])))
# groups that are part of the C01 claim (the others are built but did not close yet: run them with --only)
CLAIMED = ['sqAttacked_w', 'sqAttacked_b', 'sqAttacked3', 'sqAttacked2', 'inCheck', 'addMovesByMask', 'addPawnDoubleMovesByMask', 'addPawnMovesByMask_w', 'addPawnMovesByMask_b',
           'occupiedBB', 'lemma_pl_own']
for _sfx in ('_w', '_b'):
    CLAIMED += ['pseudoLegalMoves_%s%s' % (x, _sfx) for x in ('sliders', 'king', 'knights', 'pawns', 'tiled')]
    CLAIMED += ['pseudoLegalCaptures_%s%s' % (x, _sfx) for x in ('pieces', 'kingpawns', 'tiled')]
    CLAIMED += ['capturesAndChecks_%s%s' % (x, _sfx) for x in ('head', 'sliders', 'king', 'knights', 'pawns', 'tiled')]
    CLAIMED += ['checkEvasions_%s%s' % (x, _sfx) for x in ('head', 'pieces', 'pawns', 'tiled')]   # pieces: thorough tier (15 min each)
CLAIMED += ['removeIllegal_head', 'removeIllegal_verdict_ic', 'removeIllegal_verdict_nic']   # verdicts: thorough tier (12 cases, 16-60 min each)
CLAIMED += ['isLegal']   # deep tier: all 12 cases discharged once (7 min - 3.5 h each, 22 CPU hours; evidence_archive/C01-isLegal-deep.json); VERIF_DEEP=1 re-runs it
CLAIMED += ['givesCheck']   # givesCheck: thorough tier only (6 cases, 10-36 min each)
PROPERTIES = {'C01': CLAIMED}
ASSUMPTIONS = {'C01': [
    'assumed contracts (stubs): BitBoard::rookAttacks / bishopAttacks return the ray sets over the given occupancy (magic lookup and its tables are not proved)',
    'BitBoard::kingAttacks/knightAttacks/wPawnAttacks/bPawnAttacks are used through contracts proved in unit bbtables (table initialisation fragments of staticInitialize + lookups); squaresBetween: lookup and table initialisation (row by row) proved in unit bbtables; getDirection is proved in unit bits',
    'assumed contract: MoveList::addMove appends exactly its move (placement new into the int buffer, text pinned); A-MAXMOVES: the capacity of 256 moves is never exceeded',
    'position domain: bitboards consistent with the board (wf_bb), one king per side, no pawns on the first/last rank, castling rights imply king and rook on their squares, en-passant square as makeMove establishes it',
]}
NOT_DECIDED = {'C01': ['isLegal (verdict == playing the move on the board, position restored): proved ONCE in a 4.5 h run (complete 12-way case split, every case discharged, 7 min to 3.5 h each); it is not re-run by the registered commands (deep tier, VERIF_DEEP=1), so a later change of isLegal is only noticed when that tier is run',
                       'removeIllegal: the per-move verdict of both loops is decided in the thorough tier (king-ray shortcut == playing the move; the play-the-move branch is replaced by its specification, its text is pinned); the compaction of the list (moveList[length++] = m) is pinned text only',
                       'pseudoLegalCapturesAndChecks: decided are "only pseudo-legal moves, none twice, every capture / en-passant capture / queen-or-knight promotion present"; that every CHECKING quiet move is present (direct and discovered checks) is NOT decided',
                       'sliding-attack magic tables, FEN text layer, MoveList capacity']}

MUTANTS = [
    dict(name='sqAttacked_pawn_colour', file='lib/texellib/moveGen.hpp', pattern=r'        if \(\(BitBoard::wPawnAttacks\(sq\) & pos.pieceTypeBB\(OtherColor::PAWN\)\) != 0\)', repl='        if ((BitBoard::bPawnAttacks(sq) & pos.pieceTypeBB(OtherColor::PAWN)) != 0)', groups=['sqAttacked_w']),
    dict(name='sqAttacked_no_queen_diag', file='lib/texellib/moveGen.hpp', pattern=r'\(BitBoard::bishopAttacks\(sq, occupied\) & \(pos.pieceTypeBB\(OtherColor::BISHOP\) \| bbQueen\)\)', repl='(BitBoard::bishopAttacks(sq, occupied) & (pos.pieceTypeBB(OtherColor::BISHOP)))', groups=['sqAttacked_w', 'sqAttacked_b']),
    dict(name='sqAttacked_king_omitted', file='lib/texellib/moveGen.hpp', pattern=r'    if \(\(BitBoard::kingAttacks\(sq\) & pos.pieceTypeBB\(OtherColor::KING\)\) != 0\)\n        return true;', repl='', groups=['sqAttacked_w']),
    dict(name='inCheck_wrong_king', file='lib/texellib/moveGen.hpp', pattern=r'Square kingSq = pos.getKingSq\(pos.isWhiteMove\(\)\);\n    return sqAttacked\(pos, kingSq\);', repl='Square kingSq = pos.getKingSq(!pos.isWhiteMove());\n    return sqAttacked(pos, kingSq);', groups=['inCheck']),
    dict(name='promotion_no_knight', file='lib/texellib/moveGen.hpp', pattern=r'        moveList.addMove\(sq0, sq, MyColor::KNIGHT\);\n', repl='', groups=['addPawnMovesByMask_w', 'addPawnMovesByMask_b']),
    dict(name='promotion_rook_always', file='lib/texellib/moveGen.hpp', pattern=r'        if \(allPromotions\) \{', repl='        if (true) {', groups=['addPawnMovesByMask_w']),
    dict(name='addMoves_from_to_swapped', file='lib/texellib/moveGen.hpp', pattern=r'        moveList.addMove\(sq0, sq, Piece::EMPTY\);', repl='        moveList.addMove(sq, sq0, Piece::EMPTY);', groups=['addMovesByMask']),
    dict(name='pawn_double_delta', file='lib/texellib/moveGen.hpp', pattern=r'MoveGen::addPawnDoubleMovesByMask\(MoveList& moveList, U64 mask, int delta\) \{\n    while \(mask != 0\) \{\n        Square sq = BitBoard::extractSquare\(mask\);\n        moveList.addMove\(sq \+ delta, sq, Piece::EMPTY\);', repl='MoveGen::addPawnDoubleMovesByMask(MoveList& moveList, U64 mask, int delta) {\n    while (mask != 0) {\n        Square sq = BitBoard::extractSquare(mask);\n        moveList.addMove(sq + delta / 2, sq, Piece::EMPTY);', groups=['addPawnDoubleMovesByMask']),
    dict(name='castle_cross_square', file='lib/texellib/moveGen.cpp', pattern=r'!sqAttacked\(pos, k0 \+ 1\)\) \{', repl='!sqAttacked(pos, k0 + 2)) {', groups=['pseudoLegalMoves_king_w']),
    dict(name='castle_ooo_b1_ignored', file='lib/texellib/moveGen.cpp', pattern=r'BitBoard::sqMask\(B1,C1,D1\)', repl='BitBoard::sqMask(C1,D1)', groups=['pseudoLegalMoves_king_w']),
    dict(name='pl_double_push_row', file='lib/texellib/moveGen.cpp', pattern=r'm = \(\(m & BitBoard::maskRow3\) << 8\) & ~occupied;\n        addPawnDoubleMovesByMask\(moveList, m, -16\);', repl='m = ((m & BitBoard::maskRow4) << 8) & ~occupied;\n        addPawnDoubleMovesByMask(moveList, m, -16);', groups=['pseudoLegalMoves_pawns_w']),
    dict(name='pl_capture_file_mask', file='lib/texellib/moveGen.cpp', pattern=r'm = \(pawns << 7\) & BitBoard::maskAToGFiles & \(pos.colorBB\(!wtm\) \| epMask\);', repl='m = (pawns << 7) & BitBoard::maskBToHFiles & (pos.colorBB(!wtm) | epMask);', groups=['pseudoLegalMoves_pawns_w']),
    dict(name='pl_black_knight_own', file='lib/texellib/moveGen.cpp', pattern=r'U64 m = BitBoard::knightAttacks\(sq\) & ~pos.colorBB\(wtm\);', repl='U64 m = BitBoard::knightAttacks(sq) & ~pos.colorBB(true);', groups=['pseudoLegalMoves_knights_b']),
    dict(name='caps_push_not_only_promotion', file='lib/texellib/moveGen.cpp', pattern=r'        m &= BitBoard::maskRow8;\n', repl='', groups=['pseudoLegalCaptures_kingpawns_w']),
    dict(name='caps_knight_quiet', file='lib/texellib/moveGen.cpp', pattern=r'U64 m = BitBoard::knightAttacks\(sq\) & pos.colorBB\(!wtm\);', repl='U64 m = BitBoard::knightAttacks(sq) & ~pos.colorBB(wtm);', groups=['pseudoLegalCaptures_pieces_w']),
    dict(name='evasion_double_check_targets', file='lib/texellib/moveGen.cpp', pattern=r'\(\(kingThreats & \(kingThreats-1\)\) == 0\)', repl='((kingThreats & (kingThreats-1)) != 0)', groups=['checkEvasions_head_w']),
    dict(name='evasion_pawn_threat_colour', file='lib/texellib/moveGen.cpp', pattern=r'const U64 myPawnAttacks = wtm \? BitBoard::wPawnAttacks\(kingSq\) : BitBoard::bPawnAttacks\(kingSq\);', repl='const U64 myPawnAttacks = wtm ? BitBoard::bPawnAttacks(kingSq) : BitBoard::wPawnAttacks(kingSq);', groups=['checkEvasions_head_b']),
    dict(name='evasion_ep_dropped', file='lib/texellib/moveGen.cpp', pattern=r'm = \(pawns << 9\) & BitBoard::maskBToHFiles & \(\(pos.colorBB\(!wtm\) & validTargets\) \| epMask\);', repl='m = (pawns << 9) & BitBoard::maskBToHFiles & ((pos.colorBB(!wtm) | epMask) & validTargets);', groups=['checkEvasions_pawns_w']),
    dict(name='cc_knight_captures_dropped', file='lib/texellib/moveGen.cpp', pattern=r'm &= \(pos.colorBB\(!wtm\) \| kKnightAtk\);', repl='m &= kKnightAtk;', groups=['capturesAndChecks_knights_w']),
    dict(name='cc_pawn_ep_dropped', file='lib/texellib/moveGen.cpp', pattern=r'U64 m = \(pawns << 7\) & BitBoard::maskAToGFiles & \(pos.colorBB\(!wtm\) \| epMask\);', repl='U64 m = (pawns << 7) & BitBoard::maskAToGFiles & pos.colorBB(!wtm);', groups=['capturesAndChecks_pawns_w']),
    dict(name='cc_king_own_capture', file='lib/texellib/moveGen.cpp', pattern=r'm &= \(\(discovered & \(1ULL<<sq\)\) == 0\) \? pos.colorBB\(!wtm\) : ~pos.colorBB\(wtm\);', repl='m &= ((discovered & (1ULL<<sq)) == 0) ? pos.colorBB(!wtm) : ~pos.colorBB(!wtm);', groups=['capturesAndChecks_king_b']),
    dict(name='cc_rook_own_capture', file='lib/texellib/moveGen.cpp', pattern=r'm &= \(pos.colorBB\(!wtm\) \| kRookAtk\);\n        m &= ~pos.colorBB\(wtm\);', repl='m &= (pos.colorBB(!wtm) | kRookAtk);', groups=['capturesAndChecks_sliders_w']),
    dict(name='removeIllegal_shortcut_wrong_square', file='lib/texellib/moveGen.cpp', pattern=r'if \(\(m.from\(\) != kSq\) && \(\(kingAtks & \(1ULL<<m.to\(\)\)\) == 0\) && \(m.to\(\) != epSquare\)\) \{\n                legal = false;', repl='if ((m.from() != kSq) && ((kingAtks & (1ULL<<m.from())) == 0) && (m.to() != epSquare)) {\n                legal = false;', groups=['removeIllegal_verdict_ic']),
    dict(name='removeIllegal_ep_not_excluded', file='lib/texellib/moveGen.cpp', pattern=r'if \(\(m.from\(\) != kSq\) && \(\(kingAtks & \(1ULL<<m.from\(\)\)\) == 0\) && \(m.to\(\) != epSquare\)\) \{\n                legal = true;', repl='if ((m.from() != kSq) && ((kingAtks & (1ULL<<m.from())) == 0)) {\n                legal = true;', groups=['removeIllegal_verdict_nic']),
    dict(name='removeIllegal_head_rook_only', file='lib/texellib/moveGen.cpp', pattern=r'U64 kingAtks = BitBoard::rookAttacks\(kSq, occupied\) \| BitBoard::bishopAttacks\(kSq, occupied\);', repl='U64 kingAtks = BitBoard::rookAttacks(kSq, occupied) | BitBoard::rookAttacks(kSq, occupied);', groups=['removeIllegal_head']),
    dict(name='givesCheck_ep_discovered', file='lib/texellib/moveGen.cpp', pattern=r'                case 9: case 7: case -9: case -7:\n                    if \(nextPiece\(pos, epSq, d3\) == oKing\) \{', repl='                case 9: case 7: case -9:\n                    if (nextPiece(pos, epSq, d3) == oKing) {', groups=['givesCheck']),
    dict(name='givesCheck_castle_rook_file', file='lib/texellib/moveGen.cpp', pattern=r'            if \(nextPieceSafe\(pos, m.from\(\) \+ 1, wtm \? 8 : -8\) == oKing\)', repl='            if (nextPieceSafe(pos, m.from() + 2, wtm ? 8 : -8) == oKing)', groups=['givesCheck']),
    dict(name='givesCheck_pawn_direction', file='lib/texellib/moveGen.cpp', pattern=r'if \(\(\(d1 > 0\) == wtm\) && \(pos.getPiece\(m.to\(\) \+ d1\) == oKing\)\)', repl='if ((pos.getPiece(m.to() + d1) == oKing))', groups=['givesCheck']),
]
