"""native replay driver for unit draws (C11): Search::canClaimDrawRep on the history list of the CBMC trace"""
import subprocess, os, tempfile, re, sys

WRAP = r'''
/* ---- oracle wrapper (replay only): the window rule of the spec ---- */
int oracle_rep(const U64* list, int size, int hmc, U64 key, int firstNew) {
    struct VecU64 v; v.data = (U64*)list; v.size = size;
    for (int j1 = 0; j1 < size; j1++) {
        if (!(REP_INRANGE(j1, size, hmc) && REP_MATCH(j1, &v, key))) continue;
        if (j1 >= firstNew) return 1;                    /* an occurrence inside the search tree */
        for (int j2 = 0; j2 < size; j2++)
            if (j2 != j1 && REP_INRANGE(j2, size, hmc) && REP_MATCH(j2, &v, key)) return 1;   /* two occurrences anywhere in the window */
    }
    return 0; }
'''


def replay(doc, root):
    if doc.get('function_under_contract') != 'Search_canClaimDrawRep':
        return {'reproduced': False, 'note': 'no native driver for this function'}
    sys.path.insert(0, os.path.join(root, 'tools'))
    import replay as R
    vals = R.trace_values(doc)
    key = hmc = None
    for k, v in vals.items():
        if re.match(r'dynamic_object\$?\d*\.hashKey$', k):
            key = R.num(v)
        if re.match(r'dynamic_object\$?\d*\.halfMoveClock$', k):
            hmc = R.num(v)
    size = R.num(vals.get('posHashListSize', vals.get('n')), None)
    first = R.num(vals.get('posHashFirstNew', vals.get('f')), None)
    if key is None or hmc is None or size is None or first is None:
        return {'reproduced': False, 'note': 'inputs not found in the trace (key=%s hmc=%s size=%s firstNew=%s)' % (key, hmc, size, first)}
    # elements of the history array: the dynamic object that is indexed directly (U64 array); unassigned elements are arbitrary -> 0 unless equal to key
    elems = {}
    for k, v in vals.items():
        mm = re.match(r'dynamic_object\$?\d*\[(\d+)l?\]$', k)
        if mm:
            elems[int(mm.group(1))] = R.num(v)
    # CBMC does not list the (implicitly nondeterministic) elements of the symbolic-size array; the violated obligation is an implication whose
    # antecedent says that the history entries at the ghost indices match the current hash: those entries are reconstructed from it
    ob = doc.get('obligation') or ''
    j1 = R.num(vals.get('ghost_j1'), None); j2 = R.num(vals.get('ghost_j2'), None)
    if ob.endswith('postcondition.2') and j1 is not None and 0 <= j1 < size:
        elems[j1] = key
    if ob.endswith('postcondition.3'):
        for j in (j1, j2):
            if j is not None and 0 <= j < size:
                elems[j] = key
    out = tempfile.mkdtemp(prefix='replay_', dir=os.environ.get('VERIF_TMP', '/var/tmp'))
    try:
        obj, err = R.build_oracle(root, 'draws', out, WRAP, ['oracle_rep'])
        if err:
            return err
        exe = os.path.join(out, 'draws_replay')
        err = R.build_native(root, out, 'draws_replay.cpp', [obj], exe)
        if err:
            return err
        filler = (key + 1) & 0xFFFFFFFFFFFFFFFF
        args = [str(key), str(hmc), str(first), str(size), str(filler)] + ['%d:%d' % (i, x) for i, x in sorted(elems.items()) if i < size][:20000]
        r = subprocess.run([exe] + args, capture_output=True, text=True, timeout=120)
        return {'reproduced': r.returncode == 1, 'key': key, 'halfMoveClock': hmc, 'firstNew': first, 'size': size, 'elements_from_trace': len(elems), 'stdout': r.stdout[-600:], 'rc': r.returncode}
    except Exception as e:
        return {'reproduced': False, 'note': 'replay driver error: %s' % e}
    finally:
        subprocess.run(['rm', '-rf', out])
