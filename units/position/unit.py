"""Unit position (C02): Position make/unmake, incremental attributes, compact serialisation, MatId."""
import sys, os
sys.path.insert(0, os.path.dirname(os.path.dirname(os.path.abspath(__file__))))
from unitlib import Unit, ClassInfo
from prove import Group
import common
from common import POS_H, POS_C, BB_H, BB_C, PAR_H

POS_FIELDS = [('int', 'wMtrl_', ''), ('int', 'bMtrl_', ''), ('int', 'wMtrlPawns_', ''), ('int', 'bMtrlPawns_', ''),
              ('SqTbl<int>', 'squares', ''), ('U64', 'pieceTypeBB_', '[Piece::nPieceTypes]'), ('U64', 'whiteBB_', ''),
              ('U64', 'blackBB_', ''), ('bool', 'whiteMove', ''), ('int', 'halfMoveClock', ''), ('int', 'fullMoveCounter', ''),
              ('int', 'castleMask', ''), ('Square', 'epSquare', ''), ('U64', 'hashKey', ''), ('U64', 'pHashKey', ''),
              ('MatId', 'matId', ''), ('NNEvaluator*', 'nnEval', '')]


def position_class(U, with_nn_stub=True):
    tr = U.tr
    U.raw('struct NNEvaluator { int ghost_calls; int ghost_push; int ghost_pop; };  /* opaque: evaluator callbacks are stubs here (C07 treats them) */\n')
    nn = ClassInfo('NNEvaluator'); nn.fields = {'ghost_calls': ('int', ''), 'ghost_push': ('int', ''), 'ghost_pop': ('int', '')}
    tr.add_class(nn)
    tr.declare('NNEvaluator_setPiece', 'NNEvaluator', 'setPiece', 'void', [('Square', 'square', False), ('int', 'oldPiece', False), ('int', 'newPiece', False)], is_static=False)
    tr.declare('NNEvaluator_pushState', 'NNEvaluator', 'pushState', 'void', [], is_static=False)
    tr.declare('NNEvaluator_popState', 'NNEvaluator', 'popState', 'void', [], is_static=False)
    tr.declare('NNEvaluator_forceFullEval', 'NNEvaluator', 'forceFullEval', 'void', [], is_static=False)
    U.stubs = getattr(U, 'stubs', [])
    U.stubs += [('NNEvaluator_setPiece', 'void NNEvaluator_setPiece(struct NNEvaluator* self, Square square, int oldPiece, int newPiece)'),
                ('NNEvaluator_pushState', 'void NNEvaluator_pushState(struct NNEvaluator* self)'),
                ('NNEvaluator_popState', 'void NNEvaluator_popState(struct NNEvaluator* self)'),
                ('NNEvaluator_forceFullEval', 'void NNEvaluator_forceFullEval(struct NNEvaluator* self)')]
    ci = U.struct(POS_H, 'Position', bases=('PositionBase',), expect=POS_FIELDS)
    for c in ('A1_CASTLE', 'H1_CASTLE', 'A8_CASTLE', 'H8_CASTLE'):
        U.const(POS_H, c, 'Position')
    U.const(POS_H, 'whiteHashKey', 'Position', ctype='U64')
    U.const(POS_C, 'hashEmpty', None, cname='hashEmpty', ctype='U64')
    # symbolic key tables: every proof holds for arbitrary Zobrist keys
    # pin: the keys of Piece::EMPTY are all zero (the incremental code relies on it: clearPiece does not xor them)
    from cxx2c import find_initializer, ExtractError
    init = find_initializer(U.src(POS_C), r'Position::psHashKeys\[Piece::nPieceTypes\]')
    import re as _re
    row0 = _re.match(r'\{\s*\{([^}]*)\}', init)
    vals = [v.strip() for v in row0.group(1).split(',')] if row0 else []
    if len(vals) != 64 or any(v != '0ULL' for v in vals):
        raise ExtractError('pin changed: psHashKeys[Piece::EMPTY][*] is no longer all zero')
    U.uf_table('Position_psHashKeys', 'U64', [13, 64], 'Zobrist piece-square keys (row EMPTY pinned to zero)', zero_row0=True)
    U.uf_table('Position_castleHashKeys', 'U64', [16], 'Zobrist castling keys')
    U.uf_table('Position_epHashKeys', 'U64', [9], 'Zobrist en-passant keys')
    U.uf_table('Position_moveCntKeys', 'U64', [101], 'Zobrist half-move-clock keys')
    U.uf_table('pieceValue', 'int', [13], 'tunable piece values')
    U.raw('U8 Position_castleSqMask[64];\nU64 BitBoard_epMaskW[8], BitBoard_epMaskB[8];\nint TBProbeData_maxPieces;\n')
    ci.statics['psHashKeys'] = ('Position_psHashKeys', 'U64[13][64]')
    ci.statics['castleHashKeys'] = ('Position_castleHashKeys', 'U64[16]')
    ci.statics['epHashKeys'] = ('Position_epHashKeys', 'U64[9]')
    ci.statics['moveCntKeys'] = ('Position_moveCntKeys', 'U64[101]')
    ci.statics['castleSqMask'] = ('Position_castleSqMask', 'U8[64]')
    ci.statics['whiteHashKey'] = ('Position_whiteHashKey', 'U64')
    for c in ('A1_CASTLE', 'H1_CASTLE', 'A8_CASTLE', 'H8_CASTLE'):
        ci.statics[c] = ('Position_' + c, 'int')
    bb = tr.classes['BitBoard']
    bb.statics['epMaskW'] = ('BitBoard_epMaskW', 'U64[8]')
    bb.statics['epMaskB'] = ('BitBoard_epMaskB', 'U64[8]')
    tr.consts['TBProbeData::maxPieces'] = 'TBProbeData_maxPieces'
    # pin: the EMPTY bitboard is never read (only written once, in clearPiece)
    import subprocess as _sp
    hits = []
    for root in ('lib', 'app'):
        import os as _os
        for dp, dn, fn in _os.walk(_os.path.join(__import__('cxx2c').REPO, root)):
            for f in fn:
                if f.endswith(('.cpp', '.hpp')):
                    txt = open(_os.path.join(dp, f), errors='replace').read()
                    for m_ in _re.finditer(r'pieceTypeBB\(Piece::EMPTY|pieceTypeBB_\[Piece::EMPTY\]|pieceTypeBB_\[0\]', txt):
                        hits.append((f, txt.count('\n', 0, m_.start()) + 1))
    if [h[0] for h in hits] != ['position.cpp']:
        raise ExtractError('pin changed: uses of the EMPTY bitboard: %r' % (hits,))
    U.param('kV', PAR_H)
    tr.variadic_or.add(('Position', 'pieceTypeBB'))
    # pin of the variadic template that the translator expands as an OR of single calls
    from cxx2c import find_function
    from unitlib import norm
    from cxx2c import ExtractError
    f = find_function(U.src(POS_H), 'Position::pieceTypeBB', nparams=2)
    if norm(f.body) != 'return pieceTypeBB(piece0) | pieceTypeBB(pieces...);':
        raise ExtractError('translation pin changed: variadic Position::pieceTypeBB')
    return ci


def build():
    U = Unit('position')
    common.pieces(U)
    common.square_methods(U)
    common.bitboard_consts(U)
    common.bit_primitives(U)
    common.move_undo(U)
    common.matid(U)
    position_class(U)
    P = U.pull
    for m, n in (('isWhiteMove', 0), ('getPiece', 1), ('getCastleMask', 0), ('getEpSquare', 0), ('getKingSq', 1), ('wKingSq', 0), ('bKingSq', 0),
                 ('whiteBB', 0), ('blackBB', 0), ('colorBB', 1), ('occupiedBB', 0), ('zobristHash', 0), ('pawnZobristHash', 0),
                 ('historyHash', 0), ('bookHash', 0), ('materialId', 0), ('nPieces', 0), ('drawRuleEquals', 1),
                 ('setWhiteMove', 1), ('setCastleMask', 1), ('setEpSquare', 1), ('setSEEPiece', 2), ('setPieceB', 2), ('movePieceNotPawnB', 2),
                 ('unMakeMoveB', 2), ('makeSEEMove', 2), ('unMakeSEEMove', 2), ('getHalfMoveClock', 0), ('setHalfMoveClock', 1),
                 ('getFullMoveCounter', 0), ('setFullMoveCounter', 1), ('wMtrl', 0), ('bMtrl', 0), ('wMtrlPawns', 0), ('bMtrlPawns', 0)):
        P(POS_H, 'Position::' + m, nparams=n)
    P(POS_H, 'Position::pieceTypeBB', nparams=1)
    P(POS_H, 'Position::operator==', cname='Position_equals')
    for m, n in (('setPiece', 2), ('clearPiece', 1), ('movePieceNotPawn', 2), ('makeMove', 2), ('unMakeMove', 2), ('makeMoveB', 2),
                 ('computeZobristHash', 0), ('serialize', 1), ('staticInitialize', 0), ('forceFullEval', 0)):
        P(POS_C, 'Position::' + m, nparams=n,
          rules=[(r'matId = \{\};', 'matId = MATID_ZERO;', 1)] if m == 'computeZobristHash' else ())
    U.struct(POS_H, 'SerializeData', expect=[('U64', 'v', '[5]')])
    U.tr.classes['Position'].methods  # keep
    P(POS_C, 'Position::deSerialize', nparams=1, rules=[(r'matId = \{\};', 'matId = MATID_ZERO;', 1)])
    return U



def fold_macros():
    """Spec folds as pure expressions (no temporaries): structurally identical evaluations are shared by
    CBMC's expression cache.  q is an int[64] lvalue expression."""
    T = lambda s: '(' + ''.join('(q)[%d]==%d?Position_psHashKeys_AT(%d, %d):' % (s, c, c, s) for c in range(1, 13)) + 'Position_psHashKeys_AT(0, %d))' % s
    PT = lambda s: '((q)[%d]==6?Position_psHashKeys_AT(6, %d):(q)[%d]==12?Position_psHashKeys_AT(12, %d):0ULL)' % (s, s, s, s)
    ID = lambda s: '(unsigned)MatId_materialId[(q)[%d]]' % s
    PV = lambda s, lo, hi: '(((q)[%d]>=%d&&(q)[%d]<=%d)?(long long)pieceValue_AT((q)[%d]):0LL)' % (s, lo, s, hi, s)
    out = '#define FOLD_HASH(q) (hashEmpty ^ ' + ' ^ '.join(T(s) for s in range(64)) + ')\n'
    out += '#define FOLD_PHASH(q) (hashEmpty ^ ' + ' ^ '.join(PT(s) for s in range(64)) + ')\n'
    # quantifier-free frames over all 64 squares (old() snapshots of constant-index elements)
    out += '#define FRAME_EXCEPT1(p, a) (' + ' && '.join('((a) == %d || (p)->squares[%d] == __CPROVER_old((p)->squares[%d]))' % (k, k, k) for k in range(64)) + ')\n'
    out += '#define FRAME_EXCEPT2(p, a, b) (' + ' && '.join('((a) == %d || (b) == %d || (p)->squares[%d] == __CPROVER_old((p)->squares[%d]))' % (k, k, k, k) for k in range(64)) + ')\n'
    out += '#define APPLIED_ALL(p, q0, m) (' + ' && '.join('(p)->squares[%d] == spec_apply_sq((q0), (m), %d)' % (k, k) for k in range(64)) + ')\n'
    out += '#define BB_DELTA1(p, oldp, newp, sq) (' + ' && '.join('(p)->pieceTypeBB_[%d] == ((__CPROVER_old((p)->pieceTypeBB_[%d]) & ~((oldp) == %d ? 1ULL << (sq) : 0ULL)) | ((newp) == %d ? 1ULL << (sq) : 0ULL))' % (c, c, c, c) for c in range(13)) + ')\n'
    out += '#define BB_DELTA_MOVE(p, pc, from, to) (' + ' && '.join('(p)->pieceTypeBB_[%d] == ((pc) == %d ? ((__CPROVER_old((p)->pieceTypeBB_[%d]) & ~(1ULL << (from))) | (1ULL << (to))) : __CPROVER_old((p)->pieceTypeBB_[%d]))' % (c, c, c, c) for c in range(13)) + ')\n'
    out += '#define FOLD_MAT(q) (' + ' + '.join(ID(s) for s in range(64)) + ')\n'
    for nm, lo, hi in (('WM', 1, 6), ('BM', 7, 12), ('WP', 6, 6), ('BP', 12, 12)):
        out += '#define FOLD_%s(q) (' % nm + ' + '.join(PV(s, lo, hi) for s in range(64)) + ')\n'
    return out


SPEC = '#pragma CPROVER check push\n#pragma CPROVER check disable "pointer"\n#pragma CPROVER check disable "pointer-primitive"\n#pragma CPROVER check disable "pointer-overflow"\n' + common.BIT_SPEC + fold_macros() + r"""
#define IS_WHITE(p) ((p) >= Piece_WKING && (p) <= Piece_WPAWN)
#define IS_BLACK(p) ((p) >= Piece_BKING && (p) <= Piece_BPAWN)
#define IS_PAWN(p) ((p) == Piece_WPAWN || (p) == Piece_BPAWN)
int ghost_g, ghost_c;   /* arbitrary square / piece type chosen by the harness (stand for "for all") */
U64 ghost_dh;  /* hash discrepancy tolerated by the low-level mutator contracts: makeMove toggles the side-to-move key first
                  and the side flag last, so in between hashKey == from-scratch ^ whiteHashKey */
struct Position ghost_pos0;   /* snapshot of the position before the operation */

/* Ghost model fields: the from-scratch folds of the current board.  Meta-invariant GI (proved by group
   fold_lemmas + the pinned list of functions that write squares[]): ghost_H == FOLD_HASH(squares) etc.
   They are updated by ghost statements spliced at the exit of the three mutators that write squares[]. */
U64 ghost_H, ghost_PH; unsigned ghost_MAT; long long ghost_WM, ghost_BM, ghost_WP, ghost_BP;
#define GHOST_UPD(oldp, newp, sq) do { \
    ghost_H ^= Position_psHashKeys_AT(oldp, sq) ^ Position_psHashKeys_AT(newp, sq); \
    ghost_PH ^= (IS_PAWN(oldp) ? Position_psHashKeys_AT(oldp, sq) : 0ULL) ^ (IS_PAWN(newp) ? Position_psHashKeys_AT(newp, sq) : 0ULL); \
    ghost_MAT = ghost_MAT - (unsigned)MatId_materialId[oldp] + (unsigned)MatId_materialId[newp]; \
    ghost_WM = ghost_WM - (IS_WHITE(oldp) ? pieceValue_AT(oldp) : 0) + (IS_WHITE(newp) ? pieceValue_AT(newp) : 0); \
    ghost_BM = ghost_BM - (IS_BLACK(oldp) ? pieceValue_AT(oldp) : 0) + (IS_BLACK(newp) ? pieceValue_AT(newp) : 0); \
    ghost_WP = ghost_WP - ((oldp) == Piece_WPAWN ? pieceValue_AT(oldp) : 0) + ((newp) == Piece_WPAWN ? pieceValue_AT(newp) : 0); \
    ghost_BP = ghost_BP - ((oldp) == Piece_BPAWN ? pieceValue_AT(oldp) : 0) + ((newp) == Piece_BPAWN ? pieceValue_AT(newp) : 0); } while (0)
#define GI(q) (ghost_H == FOLD_HASH(q) && ghost_PH == FOLD_PHASH(q) && ghost_MAT == FOLD_MAT(q) && ghost_WM == FOLD_WM(q) \
    && ghost_BM == FOLD_BM(q) && ghost_WP == FOLD_WP(q) && ghost_BP == FOLD_BP(q))

static _Bool squares_ok(const struct Position* p) { for (int s = 0; s < 64; s++) if (p->squares[s] < 0 || p->squares[s] > 12) return 0; return 1; }
/* bit s of the result depends on square s only */
static U64 spec_bb(const struct Position* p, int piece) { U64 m = 0; for (int s = 0; s < 64; s++) m |= (U64)(p->squares[s] == piece) << s; return m; }
static U64 spec_white(const struct Position* p) { U64 m = 0; for (int s = 0; s < 64; s++) m |= (U64)IS_WHITE(p->squares[s]) << s; return m; }
static U64 spec_black(const struct Position* p) { U64 m = 0; for (int s = 0; s < 64; s++) m |= (U64)IS_BLACK(p->squares[s]) << s; return m; }
#define PIECEVALUES_OK (pieceValue_AT(0) == 0 && pieceValue_AT(Piece_WKING) == kV && pieceValue_AT(Piece_BKING) == kV && kV == 9900 \
    && 0 <= pieceValue_AT(2) && pieceValue_AT(2) <= 2400 && 0 <= pieceValue_AT(3) && pieceValue_AT(3) <= 2400 && 0 <= pieceValue_AT(4) && pieceValue_AT(4) <= 2400 \
    && 0 <= pieceValue_AT(5) && pieceValue_AT(5) <= 2400 && 0 <= pieceValue_AT(6) && pieceValue_AT(6) <= 2400 && pieceValue_AT(8) == pieceValue_AT(2) && pieceValue_AT(9) == pieceValue_AT(3) \
    && pieceValue_AT(10) == pieceValue_AT(4) && pieceValue_AT(11) == pieceValue_AT(5) && pieceValue_AT(12) == pieceValue_AT(6))
/* bitboards (what the ...B / SEE variants maintain) */
static _Bool wf_bb(const struct Position* p) {
    if (!squares_ok(p)) return 0;
    /* index Piece::EMPTY excluded: pieceTypeBB_[EMPTY] is write-only (never read anywhere in the tree; pinned) and is not kept
       consistent by movePieceNotPawn */
    for (int i = 1; i < 13; i++) if (p->pieceTypeBB_[i] != spec_bb(p, i)) return 0;
    return p->whiteBB_ == spec_white(p) && p->blackBB_ == spec_black(p);
}
static U64 spec_flags_hash(_Bool wtm, int castleMask, int ep) {
    return (wtm ? Position_whiteHashKey : 0) ^ Position_castleHashKeys_AT(castleMask) ^ Position_epHashKeys_AT(ep != -1 ? (ep & 7) + 1 : 0);
}
#define FLAGS_OK(p) (((p)->whiteMove == 0 || (p)->whiteMove == 1) && (p)->castleMask >= 0 && (p)->castleMask <= 15 && (p)->epSquare >= -1 && (p)->epSquare <= 63)
#define MTRL_RANGE_TIGHT (-900000 <= ghost_WM && ghost_WM <= 900000 && -900000 <= ghost_BM && ghost_BM <= 900000 && -900000 <= ghost_WP && ghost_WP <= 900000 && -900000 <= ghost_BP && ghost_BP <= 900000)
#define MTRL_RANGE (-1000000 <= ghost_WM && ghost_WM <= 1000000 && -1000000 <= ghost_BM && ghost_BM <= 1000000 && -1000000 <= ghost_WP && ghost_WP <= 1000000 && -1000000 <= ghost_BP && ghost_BP <= 1000000)
/* every incrementally maintained attribute equals its from-scratch value (hash up to the discrepancy dh);
   the folds are represented by the ghost model fields */
static _Bool wf_board_x(const struct Position* p, U64 dh) {
    if (!wf_bb(p) || !FLAGS_OK(p)) return 0;
    return p->hashKey == (ghost_H ^ spec_flags_hash(p->whiteMove, p->castleMask, p->epSquare) ^ dh)
        && p->pHashKey == ghost_PH && (unsigned)p->matId.hash == ghost_MAT
        && p->wMtrl_ == ghost_WM - kV && p->bMtrl_ == ghost_BM - kV && p->wMtrlPawns_ == ghost_WP && p->bMtrlPawns_ == ghost_BP;
}
#define WF_HASH_X(p, dh) ((p)->hashKey == (ghost_H ^ spec_flags_hash((p)->whiteMove, (p)->castleMask, (p)->epSquare) ^ (dh)))
#define WF_PHASH(p) ((p)->pHashKey == ghost_PH)
#define WF_MATID(p) ((unsigned)(p)->matId.hash == ghost_MAT)
#define WF_MTRL(p) ((p)->wMtrl_ == ghost_WM - kV && (p)->bMtrl_ == ghost_BM - kV && (p)->wMtrlPawns_ == ghost_WP && (p)->bMtrlPawns_ == ghost_BP)
#define wf_board(pp) wf_board_x((pp), 0)
#define wf_board_d(pp) wf_board_x((pp), ghost_dh)
/* exactly one king each (bit trick, no popcount: SAT-friendly), no pawns on the first/last rank.
   "At most 16 men per side" is not needed by any obligation any more (it guarded the MatId overflow before the fix). */
#define ONE_BIT(x) ((x) != 0 && ((x) & ((x) - 1)) == 0)
static _Bool men_ok(const struct Position* p) {
    return ONE_BIT(p->pieceTypeBB_[Piece_WKING]) && ONE_BIT(p->pieceTypeBB_[Piece_BKING])
        && ((p->pieceTypeBB_[Piece_WPAWN] | p->pieceTypeBB_[Piece_BPAWN]) & BitBoard_maskRow1Row8) == 0;
}
static U8 spec_castle_sq_mask(int s) {
    U8 m = 15;
    if (s == A1) m &= ~1; if (s == E1) m &= ~3; if (s == H1) m &= ~2;
    if (s == A8) m &= ~4; if (s == E8) m &= ~12; if (s == H8) m &= ~8;
    return m;
}
static _Bool castle_tbl_ok(void) { for (int s = 0; s < 64; s++) if (Position_castleSqMask[s] != spec_castle_sq_mask(s)) return 0; return 1; }
static _Bool epmask_ok(void) {
    for (int f = 0; f < 8; f++) {
        U64 w = 0, b = 0;
        if (f > 0) { w |= 1ULL << (24 + f - 1); b |= 1ULL << (32 + f - 1); }
        if (f < 7) { w |= 1ULL << (24 + f + 1); b |= 1ULL << (32 + f + 1); }
        if (BitBoard_epMaskW[f] != w || BitBoard_epMaskB[f] != b) return 0;
    }
    return 1;
}
/* castling rights imply king and rook on their squares; en-passant square as makeMove establishes it */
static _Bool wf_rights(const struct Position* p) {
    if ((p->castleMask & 1) && !(p->squares[E1] == Piece_WKING && p->squares[A1] == Piece_WROOK)) return 0;
    if ((p->castleMask & 2) && !(p->squares[E1] == Piece_WKING && p->squares[H1] == Piece_WROOK)) return 0;
    if ((p->castleMask & 4) && !(p->squares[E8] == Piece_BKING && p->squares[A8] == Piece_BROOK)) return 0;
    if ((p->castleMask & 8) && !(p->squares[E8] == Piece_BKING && p->squares[H8] == Piece_BROOK)) return 0;
    int ep = p->epSquare;
    if (ep != -1) {
        int x = ep & 7;
        if (p->whiteMove) {
            if ((ep >> 3) != 5 || p->squares[ep] != Piece_EMPTY || p->squares[ep - 8] != Piece_BPAWN || p->squares[ep + 8] != Piece_EMPTY) return 0;
            if (!((x > 0 && p->squares[ep - 9] == Piece_WPAWN) || (x < 7 && p->squares[ep - 7] == Piece_WPAWN))) return 0;
        } else {
            if ((ep >> 3) != 2 || p->squares[ep] != Piece_EMPTY || p->squares[ep + 8] != Piece_WPAWN || p->squares[ep - 8] != Piece_EMPTY) return 0;
            if (!((x > 0 && p->squares[ep + 7] == Piece_BPAWN) || (x < 7 && p->squares[ep + 9] == Piece_BPAWN))) return 0;
        }
    }
    return 1;
}
#define CLOCKS_OK(p) (0 <= (p)->halfMoveClock && (p)->halfMoveClock < (1 << 30) && 1 <= (p)->fullMoveCounter && (p)->fullMoveCounter < (1 << 30))
#define wf(pp) (wf_board(pp) && men_ok(pp) && wf_rights(pp) && CLOCKS_OK(pp))

/* Structural precondition of makeMove, derived from its call sites (weaker than pseudo-legality:
   no geometry is required for king/queen/rook/bishop/knight moves other than castling). */
static _Bool mv_shape(const struct Position* p, const struct Move* m) {
    int from = m->from_, to = m->to_, pr = m->promoteTo_;
    if (from < 0 || from > 63 || to < 0 || to > 63 || from == to) return 0;
    int pc = p->squares[from], cap = p->squares[to];
    _Bool w = p->whiteMove;
    if (pc == Piece_EMPTY || (w ? !IS_WHITE(pc) : !IS_BLACK(pc))) return 0;
    if (cap != Piece_EMPTY && (w ? !IS_BLACK(cap) : !IS_WHITE(cap))) return 0;
    if (cap == Piece_WKING || cap == Piece_BKING) return 0;
    int fx = from & 7, fy = from >> 3, tx = to & 7, ty = to >> 3;
    if (pc == Piece_WPAWN || pc == Piece_BPAWN) {
        int dir = w ? 1 : -1;
        _Bool last = ty == (w ? 7 : 0);
        if (last) { if (!(w ? (pr >= Piece_WQUEEN && pr <= Piece_WKNIGHT) : (pr >= Piece_BQUEEN && pr <= Piece_BKNIGHT))) return 0; }
        else if (pr != Piece_EMPTY) return 0;
        if (tx == fx) {
            if (cap != Piece_EMPTY) return 0;
            if (ty == fy + dir) return 1;
            if (fy == (w ? 1 : 6) && ty == fy + 2 * dir && p->squares[from + 8 * dir] == Piece_EMPTY) return 1;
            return 0;
        }
        if ((tx == fx + 1 || tx == fx - 1) && ty == fy + dir) return cap != Piece_EMPTY || to == p->epSquare;
        return 0;
    }
    if (pr != Piece_EMPTY) return 0;
    if ((pc == Piece_WKING || pc == Piece_BKING) && fy == ty && (tx == fx + 2 || tx == fx - 2)) {
        /* castling */
        int k0 = w ? E1 : E8;
        if (from != k0 || cap != Piece_EMPTY) return 0;
        if (tx == fx + 2) return (p->castleMask & (w ? 2 : 8)) && p->squares[k0 + 1] == Piece_EMPTY && p->squares[k0 + 2] == Piece_EMPTY;
        return (p->castleMask & (w ? 1 : 4)) && p->squares[k0 - 1] == Piece_EMPTY && p->squares[k0 - 2] == Piece_EMPTY && p->squares[k0 - 3] == Piece_EMPTY;
    }
    if (pc == Piece_WKING || pc == Piece_BKING)   /* ordinary king step (makeMove treats every king move by +-2 squares as castling) */
        return tx - fx >= -1 && tx - fx <= 1 && ty - fy >= -1 && ty - fy <= 1;
    return 1;
}
/* board after the move, square by square, from the rules of chess (q = position before the move) */
static int spec_apply_sq(const struct Position* q, const struct Move* m, int g) {
    int from = m->from_, to = m->to_, pc = q->squares[from], ep = q->epSquare;
    if (g == from) return Piece_EMPTY;
    if (g == to) return m->promoteTo_ != Piece_EMPTY ? m->promoteTo_ : pc;
    if ((pc == Piece_WKING || pc == Piece_BKING) && to == from + 2) { if (g == from + 3) return Piece_EMPTY; if (g == from + 1) return q->squares[from + 3]; }
    if ((pc == Piece_WKING || pc == Piece_BKING) && to == from - 2) { if (g == from - 4) return Piece_EMPTY; if (g == from - 1) return q->squares[from - 4]; }
    if (pc == Piece_WPAWN && to == ep && g == to - 8) return Piece_EMPTY;
    if (pc == Piece_BPAWN && to == ep && g == to + 8) return Piece_EMPTY;
    return q->squares[g];
}
static int spec_castle_after(int cm, int from, int to) {
    if (from == E1 || to == E1) cm &= ~3;
    if (from == E8 || to == E8) cm &= ~12;
    if (from == A1 || to == A1) cm &= ~1;
    if (from == H1 || to == H1) cm &= ~2;
    if (from == A8 || to == A8) cm &= ~4;
    if (from == H8 || to == H8) cm &= ~8;
    return cm;
}
/* en-passant square after the move: set after a double pawn push when an enemy pawn stands beside the pawn */
static int spec_ep_after(const struct Position* q, const struct Move* m) {
    int from = m->from_, to = m->to_, pc = q->squares[from], x = to & 7;
    if (pc == Piece_WPAWN && to == from + 16) { if ((x > 0 && q->squares[to - 1] == Piece_BPAWN) || (x < 7 && q->squares[to + 1] == Piece_BPAWN)) return from + 8; }
    if (pc == Piece_BPAWN && to == from - 16) { if ((x > 0 && q->squares[to - 1] == Piece_WPAWN) || (x < 7 && q->squares[to + 1] == Piece_WPAWN)) return from - 8; }
    return -1;
}
static _Bool same_basic(const struct Position* a, const struct Position* b) {
    for (int s = 0; s < 64; s++) if (a->squares[s] != b->squares[s]) return 0;
    return a->whiteMove == b->whiteMove && a->castleMask == b->castleMask && a->epSquare == b->epSquare
        && a->halfMoveClock == b->halfMoveClock && a->fullMoveCounter == b->fullMoveCounter;
}
static _Bool same_all(const struct Position* a, const struct Position* b) {
    if (!same_basic(a, b)) return 0;
    for (int i = 1; i < 13; i++) if (a->pieceTypeBB_[i] != b->pieceTypeBB_[i]) return 0;   /* [EMPTY] is write-only, see wf_bb */
    return a->whiteBB_ == b->whiteBB_ && a->blackBB_ == b->blackBB_ && a->hashKey == b->hashKey && a->pHashKey == b->pHashKey
        && a->matId.hash == b->matId.hash && a->wMtrl_ == b->wMtrl_ && a->bMtrl_ == b->bMtrl_ && a->wMtrlPawns_ == b->wMtrlPawns_
        && a->bMtrlPawns_ == b->bMtrlPawns_ && a->nnEval == b->nnEval;
}
#define NONBOARD_SAME(p) ((p)->whiteMove == __CPROVER_old((p)->whiteMove) && (p)->castleMask == __CPROVER_old((p)->castleMask) \
    && (p)->epSquare == __CPROVER_old((p)->epSquare) && (p)->halfMoveClock == __CPROVER_old((p)->halfMoveClock) \
    && (p)->fullMoveCounter == __CPROVER_old((p)->fullMoveCounter) && (p)->nnEval == __CPROVER_old((p)->nnEval))
#define WB_DELTA1(p, oldp, newp, sq) ( \
    (p)->whiteBB_ == ((__CPROVER_old((p)->whiteBB_) & ~(IS_WHITE(oldp) ? 1ULL << (sq) : 0ULL)) | (IS_WHITE(newp) ? 1ULL << (sq) : 0ULL)) \
 && (p)->blackBB_ == ((__CPROVER_old((p)->blackBB_) & ~(IS_BLACK(oldp) ? 1ULL << (sq) : 0ULL)) | (IS_BLACK(newp) ? 1ULL << (sq) : 0ULL)))
#define WB_DELTA_MOVE(p, pc, from, to) ( \
    (p)->whiteBB_ == (IS_WHITE(pc) ? ((__CPROVER_old((p)->whiteBB_) & ~(1ULL << (from))) | (1ULL << (to))) : __CPROVER_old((p)->whiteBB_)) \
 && (p)->blackBB_ == (IS_WHITE(pc) ? __CPROVER_old((p)->blackBB_) : ((__CPROVER_old((p)->blackBB_) & ~(1ULL << (from))) | (1ULL << (to)))))
#define WF_SCALARS_D(p) (WF_HASH_X(p, ghost_dh) && WF_PHASH(p) && WF_MATID(p) && WF_MTRL(p))
#define NN_OK(p) ((p)->nnEval == 0 || __CPROVER_is_fresh((p)->nnEval, sizeof(struct NNEvaluator)))
/* ghost model fields after an update of one square, as the update lemma (group fold_lemmas) states it */
#define GHOSTS_UPDATED(oldp, newp, sq) ( \
    ghost_H == (__CPROVER_old(ghost_H) ^ Position_psHashKeys_AT(oldp, sq) ^ Position_psHashKeys_AT(newp, sq)) \
 && ghost_PH == (__CPROVER_old(ghost_PH) ^ (IS_PAWN(oldp) ? Position_psHashKeys_AT(oldp, sq) : 0ULL) ^ (IS_PAWN(newp) ? Position_psHashKeys_AT(newp, sq) : 0ULL)) \
 && ghost_MAT == __CPROVER_old(ghost_MAT) - (unsigned)MatId_materialId[oldp] + (unsigned)MatId_materialId[newp] \
 && ghost_WM == __CPROVER_old(ghost_WM) - (IS_WHITE(oldp) ? pieceValue_AT(oldp) : 0) + (IS_WHITE(newp) ? pieceValue_AT(newp) : 0) \
 && ghost_BM == __CPROVER_old(ghost_BM) - (IS_BLACK(oldp) ? pieceValue_AT(oldp) : 0) + (IS_BLACK(newp) ? pieceValue_AT(newp) : 0) \
 && ghost_WP == __CPROVER_old(ghost_WP) - ((oldp) == Piece_WPAWN ? pieceValue_AT(oldp) : 0) + ((newp) == Piece_WPAWN ? pieceValue_AT(newp) : 0) \
 && ghost_BP == __CPROVER_old(ghost_BP) - ((oldp) == Piece_BPAWN ? pieceValue_AT(oldp) : 0) + ((newp) == Piece_BPAWN ? pieceValue_AT(newp) : 0))
"""

_SELF = '__CPROVER_is_fresh(self, sizeof(*self))'
_TABLES = 'PIECEVALUES_OK && MTRL_RANGE'
_G = '0 <= ghost_g && ghost_g < 64 && 0 <= ghost_c && ghost_c <= 12'
_GHOSTS = 'ghost_H, ghost_PH, ghost_MAT, ghost_WM, ghost_BM, ghost_WP, ghost_BP'
_WF_D_ENS = ['wf_bb(self)', 'FLAGS_OK(self)', 'WF_HASH_X(self, ghost_dh)', 'WF_PHASH(self)', 'WF_MATID(self)', 'WF_MTRL(self)']
_FRAME_ALL = ['*self', 'self->nnEval != 0: self->nnEval->ghost_calls, self->nnEval->ghost_push, self->nnEval->ghost_pop', _GHOSTS]

CONTRACTS = dict(common.BIT_CONTRACTS)
CONTRACTS.update({
    # evaluator callbacks: assumed to touch evaluator state only (subject of C07)
    'NNEvaluator_setPiece': {'assigns': ['self->ghost_calls'], 'ensures': ['1']},
    'NNEvaluator_pushState': {'assigns': ['self->ghost_push'], 'ensures': ['1']},
    'NNEvaluator_popState': {'assigns': ['self->ghost_pop'], 'ensures': ['1']},
    'NNEvaluator_forceFullEval': {'assigns': ['self->ghost_calls'], 'ensures': ['1']},

    # ---- the three mutators that write squares[]: delta contracts (no loops); the fold ghosts are updated by spliced ghost code ----
    'Position_setPiece': {
        'requires': [_SELF, 'NN_OK(self)', _TABLES, 'WF_SCALARS_D(self)', '0 <= sq && sq < 64 && 0 <= piece && piece <= 12',
                     '0 <= self->squares[sq] && self->squares[sq] <= 12'],
        'assigns': _FRAME_ALL,
        'ensures': ['GHOSTS_UPDATED(__CPROVER_old(self->squares[sq]), piece, sq)', 'WF_HASH_X(self, ghost_dh)', 'WF_PHASH(self)', 'WF_MATID(self)', 'WF_MTRL(self)',
                    'self->squares[sq] == piece', 'FRAME_EXCEPT1(self, sq)',
                    'BB_DELTA1(self, __CPROVER_old(self->squares[sq]), piece, sq)', 'WB_DELTA1(self, __CPROVER_old(self->squares[sq]), piece, sq)',
                    'NONBOARD_SAME(self)'],
        'ghost_entry': 'int ghost_oldp = self->squares[sq];',
        'ghost_exit': 'GHOST_UPD(ghost_oldp, self->squares[sq], sq);',
    },
    'Position_clearPiece': {
        'requires': [_SELF, 'NN_OK(self)', _TABLES, 'WF_SCALARS_D(self)', '0 <= sq && sq < 64', '0 <= self->squares[sq] && self->squares[sq] <= 12'],
        'assigns': _FRAME_ALL,
        'ensures': ['GHOSTS_UPDATED(__CPROVER_old(self->squares[sq]), Piece_EMPTY, sq)', 'WF_HASH_X(self, ghost_dh)', 'WF_PHASH(self)', 'WF_MATID(self)', 'WF_MTRL(self)',
                    'self->squares[sq] == Piece_EMPTY', 'FRAME_EXCEPT1(self, sq)',
                    'BB_DELTA1(self, __CPROVER_old(self->squares[sq]), Piece_EMPTY, sq)', 'WB_DELTA1(self, __CPROVER_old(self->squares[sq]), Piece_EMPTY, sq)',
                    'NONBOARD_SAME(self)'],
        'ghost_entry': 'int ghost_oldp = self->squares[sq];',
        'ghost_exit': 'GHOST_UPD(ghost_oldp, self->squares[sq], sq);',
    },
    'Position_movePieceNotPawn': {
        'requires': [_SELF, 'NN_OK(self)', _TABLES, 'WF_SCALARS_D(self)', '0 <= from && from < 64 && 0 <= to && to < 64 && from != to',
                     'self->squares[to] == Piece_EMPTY', '1 <= self->squares[from] && self->squares[from] <= 12 && self->squares[from] != Piece_WPAWN && self->squares[from] != Piece_BPAWN'],
        'assigns': _FRAME_ALL,
        'ensures': [
                    # two single-square updates: from := EMPTY, then to := piece
                    'ghost_H == (__CPROVER_old(ghost_H) ^ Position_psHashKeys_AT(self->squares[to], from) ^ Position_psHashKeys_AT(self->squares[to], to))',
                    'ghost_PH == __CPROVER_old(ghost_PH) && ghost_MAT == __CPROVER_old(ghost_MAT) && ghost_WM == __CPROVER_old(ghost_WM) && ghost_BM == __CPROVER_old(ghost_BM) && ghost_WP == __CPROVER_old(ghost_WP) && ghost_BP == __CPROVER_old(ghost_BP)',
                    'WF_HASH_X(self, ghost_dh)', 'WF_PHASH(self)', 'WF_MATID(self)', 'WF_MTRL(self)',
                    'self->squares[from] == Piece_EMPTY', 'self->squares[to] == __CPROVER_old(self->squares[from])', 'FRAME_EXCEPT2(self, from, to)',
                    'BB_DELTA_MOVE(self, __CPROVER_old(self->squares[from]), from, to)', 'WB_DELTA_MOVE(self, __CPROVER_old(self->squares[from]), from, to)',
                    'NONBOARD_SAME(self)'],
        'ghost_entry': 'int ghost_oldf = self->squares[from]; int ghost_oldt = self->squares[to];',
        'ghost_exit': 'GHOST_UPD(ghost_oldf, self->squares[from], from); GHOST_UPD(ghost_oldt, self->squares[to], to);',
    },
    # ---- flag setters keep the hash consistent (frame = assigns clause) ----
    'Position_setWhiteMove': {
        'requires': [_SELF, 'FLAGS_OK(self)', 'WF_HASH_X(self, ghost_dh)'],
        'assigns': ['self->hashKey, self->whiteMove'],
        'ensures': ['WF_HASH_X(self, ghost_dh)', 'self->whiteMove == whiteMove'],
    },
    'Position_setCastleMask': {
        'requires': [_SELF, 'FLAGS_OK(self)', 'WF_HASH_X(self, ghost_dh)', '0 <= castleMask && castleMask <= 15'],
        'assigns': ['self->hashKey, self->castleMask'],
        'ensures': ['WF_HASH_X(self, ghost_dh)', 'self->castleMask == castleMask'],
    },
    'Position_setEpSquare': {
        'requires': [_SELF, 'FLAGS_OK(self)', 'WF_HASH_X(self, ghost_dh)', '-1 <= epSquare && epSquare <= 63'],
        'assigns': ['self->hashKey, self->epSquare'],
        'ensures': ['WF_HASH_X(self, ghost_dh)', 'self->epSquare == epSquare'],
    },
    'Position_staticInitialize': {
        'assigns': ['__CPROVER_object_whole(Position_castleSqMask)'],
        'ensures': ['castle_tbl_ok()'],
    },
    'Position_makeMove': {
        'requires': [_SELF, 'NN_OK(self)', '__CPROVER_is_fresh(move, sizeof(*move))', '__CPROVER_is_fresh(ui, sizeof(*ui))', _TABLES, _G,
                     'castle_tbl_ok()', 'epmask_ok()', 'wf(self)', 'mv_shape(self, move)', 'same_all(self, &ghost_pos0)', 'MTRL_RANGE_TIGHT', 'ghost_dh == 0', 'MM_CASE(self, move)'],
        'assigns': _FRAME_ALL + ['*ui', 'ghost_dh'],
        # makeMove toggles the side-to-move key first and the side flag last: in between the hash differs from the
        # from-scratch value by whiteHashKey; the ghost discrepancy follows that (ghost code only)
        'ghost_entry': 'ghost_dh ^= Position_whiteHashKey;',
        'ghost_exit': 'ghost_dh ^= Position_whiteHashKey;',
        'ensures': [
            'wf_bb(self)', 'FLAGS_OK(self)', 'WF_HASH_X(self, 0)', 'WF_PHASH(self)', 'WF_MATID(self)', 'WF_MTRL(self)', 'men_ok(self)', 'wf_rights(self)',
            'self->squares[ghost_g] == spec_apply_sq(&ghost_pos0, move, ghost_g)',
            'self->whiteMove == !ghost_pos0.whiteMove',
            'self->castleMask == spec_castle_after(ghost_pos0.castleMask, move->from_, move->to_)',
            'self->epSquare == spec_ep_after(&ghost_pos0, move)',
            'self->halfMoveClock == ((ghost_pos0.squares[move->to_] != Piece_EMPTY || ghost_pos0.squares[move->from_] == Piece_WPAWN || ghost_pos0.squares[move->from_] == Piece_BPAWN) ? 0 : ghost_pos0.halfMoveClock + 1)',
            'self->fullMoveCounter == ghost_pos0.fullMoveCounter + (ghost_pos0.whiteMove ? 0 : 1)',
            'ui->capturedPiece == ghost_pos0.squares[move->to_] && ui->castleMask == ghost_pos0.castleMask && ui->epSquare == ghost_pos0.epSquare && ui->halfMoveClock == ghost_pos0.halfMoveClock',
            'self->nnEval == ghost_pos0.nnEval', 'ghost_dh == 0',
        ],
    },
    'MatId_addPiece': {
        'requires': [_SELF, '0 <= pType && pType <= 12', 'mat_legal_cnt(ghost_cnt)', 'ghost_cnt.c[pType] >= 1',
                     # hash is the identifier of the configuration before the piece was added
                     'self->hash == spec_mat_hash_minus(ghost_cnt, pType)'],
        'assigns': ['self->hash'],
        'ensures': ['self->hash == spec_mat_hash(ghost_cnt)'],
    },
    'MatId_removePiece': {
        'requires': [_SELF, '0 <= pType && pType <= 12', 'mat_legal_cnt(ghost_cnt)', 'ghost_cnt.c[pType] >= 1', 'self->hash == spec_mat_hash(ghost_cnt)'],
        'assigns': ['self->hash'],
        'ensures': ['self->hash == spec_mat_hash_minus(ghost_cnt, pType)'],
    },
    'Position_serialize': {
        'requires': [_SELF, '__CPROVER_is_fresh(data, sizeof(*data))', 'squares_ok(self)', 'FLAGS_OK(self)'],
        'assigns': ['__CPROVER_object_whole(data)'],
        'ensures': ['spec_ser_ok(self, data)'],
    },
    # deSerialize: the board, flags and clocks are exactly what the compact form encodes (the inverse of spec_ser_ok), the
    # evaluator pointer is kept; every table access in range, no signed overflow in the material sums.  NOT in the contract:
    # bitboards == from-scratch bitboards (wf_bb: with that clause cbmc does not finish in 1800 s; without it 256 s) and the
    # hash / material folds (DESIGN 13.14).  Precondition from the call
    # sites (data always comes from serialize): nibbles are piece codes, the ep byte is a square or 0xff.
    'Position_deSerialize': {
        'requires': [_SELF, 'NN_OK(self)', '__CPROVER_is_fresh(data, sizeof(*data))', 'PIECEVALUES_OK', 'ser_nibbles_ok(data)', 'ser_flags_ok(data)'],
        'assigns': ['*self', 'self->nnEval != 0: self->nnEval->ghost_calls'],
        'ensures': ['spec_deser_ok(self, data)', 'FLAGS_OK(self)', 'self->nnEval == __CPROVER_old(self->nnEval)'],
    },
    'Position_bookHash': {
        'requires': [_SELF, '0 <= self->halfMoveClock'],
        'assigns': [],
        'ensures': ['__CPROVER_return_value == (self->hashKey ^ Position_moveCntKeys_AT(self->halfMoveClock < 100 ? self->halfMoveClock : 100))'],
    },
    'Position_historyHash': {
        'requires': [_SELF, '0 <= self->halfMoveClock'],
        'assigns': [],
        'ensures': ['1'],
    },
})

SPEC += r"""
/* complete case split of the makeMove proof on the kind of the moving piece (6 cases, each a separate run; without CASE_MM: one query) */
#ifdef CASE_MM
#define MM_CASE(p, m) ((((p)->squares[(m)->from_] - 1) % 6) == CASE_MM)
#else
#define MM_CASE(p, m) 1
#endif
/* material configurations that legal play can produce: per side at most 16 men, one king,
   pawns + promoted pieces <= 8 */
struct Counts { int c[13]; };
struct Counts ghost_cnt;
static _Bool mat_legal_cnt(struct Counts k) {
    for (int p = 0; p < 13; p++) if (k.c[p] < 0 || k.c[p] > 64) return 0;
    if (k.c[Piece_WKING] != 1 || k.c[Piece_BKING] != 1) return 0;
    for (int side = 0; side < 2; side++) {
        int o = side * 6;
        int q = k.c[2 + o], r = k.c[3 + o], b = k.c[4 + o], n = k.c[5 + o], pw = k.c[6 + o];
        int promoted = (q > 1 ? q - 1 : 0) + (r > 2 ? r - 2 : 0) + (b > 2 ? b - 2 : 0) + (n > 2 ? n - 2 : 0);
        if (pw + promoted > 8) return 0;
        if (1 + q + r + b + n + pw > 16) return 0;
    }
    return 1;
}
static int spec_mat_hash(struct Counts k) { unsigned h = 0; for (int p = 0; p < 13; p++) h += (unsigned)k.c[p] * (unsigned)MatId_materialId[p]; return (int)h; }
static int spec_mat_hash_minus(struct Counts k, int pt) { return (int)((unsigned)spec_mat_hash(k) - (unsigned)MatId_materialId[pt]); }
/* compact serialised form: 4 bits per square, then side/castle/ep/clocks */
static _Bool spec_ser_ok(const struct Position* p, const struct SerializeData* d) {
    for (int s = 0; s < 64; s++) if (((d->v[s / 16] >> (4 * (15 - s % 16))) & 15) != (U64)p->squares[s]) return 0;
    U64 f = d->v[4];
    return (f & 0xffff) == (U64)(p->fullMoveCounter & 0xffff) && ((f >> 16) & 0xff) == (U64)(p->halfMoveClock & 0xff)
        && ((f >> 24) & 0xff) == (U64)(p->epSquare & 0xff) && ((f >> 32) & 15) == (U64)p->castleMask && ((f >> 36) & 1) == (U64)(p->whiteMove ? 1 : 0) && (f >> 37) == 0;
}
/* inverse direction: what deSerialize must produce from the compact form */
static int spec_nib(const struct SerializeData* d, int s) { return (int)((d->v[s / 16] >> (4 * (15 - s % 16))) & 15); }
static _Bool ser_nibbles_ok(const struct SerializeData* d) { for (int s = 0; s < 64; s++) if (spec_nib(d, s) > 12) return 0; return 1; }
static _Bool ser_flags_ok(const struct SerializeData* d) { int ep = (int)((d->v[4] >> 24) & 0xff); return ep <= 63 || ep == 0xff; }
static _Bool spec_deser_ok(const struct Position* p, const struct SerializeData* d) {
    for (int s = 0; s < 64; s++) if (p->squares[s] != spec_nib(d, s)) return 0;
    U64 f = d->v[4]; int ep = (int)((f >> 24) & 0xff);
    return p->fullMoveCounter == (int)(f & 0xffff) && p->halfMoveClock == (int)((f >> 16) & 0xff)
        && p->epSquare == (ep == 0xff ? -1 : ep) && p->castleMask == (int)((f >> 32) & 15) && (p->whiteMove ? 1 : 0) == (int)((f >> 36) & 1);
}
#pragma CPROVER check pop
"""

HARNESS = r"""
#ifdef CANARY
#define CANARY_POINT __CPROVER_assert(0, "canary: harness end reachable")
#else
#define CANARY_POINT
#endif
int nondet_int(void); U64 nondet_u64(void); long long nondet_ll(void); unsigned nondet_uint(void);
static void havoc_tables(void) {
    __CPROVER_havoc_object(Position_castleSqMask); __CPROVER_havoc_object(BitBoard_epMaskW);
    __CPROVER_havoc_object(BitBoard_epMaskB); __CPROVER_havoc_object(&ghost_cnt);
    __CPROVER_havoc_object(&ghost_pos0);
    kV = nondet_int(); TBProbeData_maxPieces = nondet_int(); ghost_g = nondet_int(); ghost_c = nondet_int(); ghost_dh = nondet_u64();
    ghost_H = nondet_u64(); ghost_PH = nondet_u64(); ghost_MAT = nondet_uint(); ghost_WM = nondet_ll(); ghost_BM = nondet_ll(); ghost_WP = nondet_ll(); ghost_BP = nondet_ll();
}
void h_setPiece(void) { struct Position* p; int sq, pc; havoc_tables(); Position_setPiece(p, sq, pc); CANARY_POINT; }
void h_clearPiece(void) { struct Position* p; int sq; havoc_tables(); Position_clearPiece(p, sq); CANARY_POINT; }
void h_movePieceNotPawn(void) { struct Position* p; int a, b; havoc_tables(); Position_movePieceNotPawn(p, a, b); CANARY_POINT; }
void h_setWhiteMove(void) { struct Position* p; _Bool w = (nondet_int() != 0); havoc_tables(); Position_setWhiteMove(p, w); CANARY_POINT; }
void h_setCastleMask(void) { struct Position* p; int c; havoc_tables(); Position_setCastleMask(p, c); CANARY_POINT; }
void h_setEpSquare(void) { struct Position* p; int e; havoc_tables(); Position_setEpSquare(p, e); CANARY_POINT; }
void h_staticInitialize(void) { havoc_tables(); Position_staticInitialize(); CANARY_POINT; }
void h_makeMove(void) { struct Position* p; struct Move* m; struct UndoInfo* u; havoc_tables();
    Position_makeMove(p, m, u); CANARY_POINT; }
void h_addPiece(void) { struct MatId* m; int pt; havoc_tables(); MatId_addPiece(m, pt); CANARY_POINT; }
void h_removePiece(void) { struct MatId* m; int pt; havoc_tables(); MatId_removePiece(m, pt); CANARY_POINT; }
void h_serialize(void) { struct Position* p; struct SerializeData* d; havoc_tables(); Position_serialize(p, d); CANARY_POINT; }
void h_deSerialize(void) { struct Position* p; struct SerializeData* d; havoc_tables(); Position_deSerialize(p, d); CANARY_POINT; }
/* round trip as a lemma over the two contracts: deSerialize(serialize(a)) has a's board, side, castling rights, ep square and
   clocks (clocks within the widths of the compact form: 8 and 16 bits) */
void h_ser_roundtrip(void) {
    struct Position a, b; struct SerializeData d; struct NNEvaluator nn;
    havoc_tables();
    __CPROVER_havoc_object(&a); __CPROVER_havoc_object(&b); __CPROVER_havoc_object(&d);
    __CPROVER_assume(b.nnEval == 0 || b.nnEval == &nn);
    __CPROVER_assume(PIECEVALUES_OK && squares_ok(&a) && FLAGS_OK(&a) && 0 <= a.halfMoveClock && a.halfMoveClock < 256
                     && 0 <= a.fullMoveCounter && a.fullMoveCounter < 65536);
    Position_serialize(&a, &d);
    Position_deSerialize(&b, &d);
    __CPROVER_assert(same_basic(&b, &a), "deSerialize(serialize(p)): board, side, castling, ep, clocks equal to p");
    CANARY_POINT;
}
void h_historyHash(void) { struct Position* p; havoc_tables(); Position_historyHash(p); CANARY_POINT; }
void h_bookHash(void) { struct Position* p; havoc_tables(); Position_bookHash(p); CANARY_POINT; }

/* make ; unmake restores a bit-identical position: the real bodies of makeMove and unMakeMove, with the
   low-level mutators and flag setters used through their (delta) contracts. */
void h_make_unmake(void) {
    struct Position pos; struct Move m; struct UndoInfo ui; struct NNEvaluator nn;
    havoc_tables(); ghost_dh = 0;
    __CPROVER_havoc_object(&pos); __CPROVER_havoc_object(&m); __CPROVER_havoc_object(&ui);
    __CPROVER_assume(pos.nnEval == 0 || pos.nnEval == &nn);
    __CPROVER_assume(PIECEVALUES_OK && MTRL_RANGE_TIGHT && castle_tbl_ok() && epmask_ok() && wf(&pos) && mv_shape(&pos, &m));
#ifdef CASE_MU
    /* complete case split on the kind of the moving piece (6 cases, each a separate run) */
    __CPROVER_assume(((pos.squares[m.from_] - 1) % 6) == CASE_MU);
#endif
    ghost_pos0 = pos;
    U64 h0 = ghost_H, ph0 = ghost_PH; unsigned mat0 = ghost_MAT; long long wm0 = ghost_WM, bm0 = ghost_BM, wp0 = ghost_WP, bp0 = ghost_BP;
    Position_makeMove(&pos, &m, &ui);
    Position_unMakeMove(&pos, &m, &ui);
    __CPROVER_assert(same_basic(&pos, &ghost_pos0), "unMakeMove(makeMove(p)): board, side, castling, ep, clocks restored");
    __CPROVER_assert(wf_board(&pos), "unMakeMove(makeMove(p)): every incremental attribute consistent again");
    __CPROVER_assert(ghost_H == h0 && ghost_PH == ph0 && ghost_MAT == mat0 && ghost_WM == wm0 && ghost_BM == bm0 && ghost_WP == wp0 && ghost_BP == bp0,
                     "unMakeMove(makeMove(p)): fold ghosts back to their old values");
    __CPROVER_assert(same_all(&pos, &ghost_pos0), "unMakeMove(makeMove(p)) is bit-identical to p");
    CANARY_POINT;
}

/* Update lemma for the fold ghosts (meta-invariant GI): for every board, every piece value v and the square KK
   (compile-time constant; the group runs all 64 cases), GHOST_UPD keeps each ghost equal to its from-scratch fold.
   Spec-only: no repository code involved except the table dimensions and MatId::materialId. */
#ifdef KK
void h_fold_lemma(void) {
    int b[64]; int v = nondet_int();
    havoc_tables();
    for (int s = 0; s < 64; s++) { b[s] = nondet_int(); __CPROVER_assume(b[s] >= 0 && b[s] <= 12); }
    __CPROVER_assume(v >= 0 && v <= 12 && PIECEVALUES_OK);
    __CPROVER_assume(GI(b));
    int oldp = b[KK];
    b[KK] = v;
    GHOST_UPD(oldp, v, KK);
    __CPROVER_assert(ghost_H == FOLD_HASH(b), "GI preserved: hash fold");
    __CPROVER_assert(ghost_PH == FOLD_PHASH(b), "GI preserved: pawn hash fold");
    __CPROVER_assert(ghost_MAT == FOLD_MAT(b), "GI preserved: material id fold");
    __CPROVER_assert(ghost_WM == FOLD_WM(b) && ghost_BM == FOLD_BM(b) && ghost_WP == FOLD_WP(b) && ghost_BP == FOLD_BP(b), "GI preserved: material sums");
    CANARY_POINT;
}
#endif
"""

UNWIND = {'squares_ok': 65, 'spec_bb': 65, 'spec_white': 65, 'spec_black': 65,
          'wf_bb': 14, 'spec_popcount': 65, 'spec_lowest': 65, 'spec_highest': 65,
          'castle_tbl_ok': 65, 'epmask_ok': 9, 'same_basic': 65, 'same_all': 14, 'mat_legal_cnt': 14, 'spec_mat_hash': 14, 'spec_ser_ok': 65, 'ser_nibbles_ok': 65, 'spec_deser_ok': 65,
          'Position_computeZobristHash': 65, 'Position_staticInitialize': 65, 'Position_serialize': 17, 'Position_deSerialize': 17,
          'Position_drawRuleEquals': 65}
_MUT = ('Position_setPiece', 'Position_clearPiece', 'Position_movePieceNotPawn', 'Position_setEpSquare', 'Position_setCastleMask')
_NN = ('NNEvaluator_setPiece', 'NNEvaluator_pushState', 'NNEvaluator_popState', 'NNEvaluator_forceFullEval')
_BITS = ('BitBoard_firstSquare', 'BitBoard_bitCount')
GROUPS = [
    Group('MatId_addPiece', 'h_addPiece', enforce='MatId_addPiece', min_props=3),
    Group('MatId_removePiece', 'h_removePiece', enforce='MatId_removePiece', min_props=3),
    Group('setPiece', 'h_setPiece', enforce='Position_setPiece', replace=_NN, min_props=20, timeout=1200),
    Group('clearPiece', 'h_clearPiece', enforce='Position_clearPiece', replace=_NN, min_props=20, timeout=1200),
    Group('movePieceNotPawn', 'h_movePieceNotPawn', enforce='Position_movePieceNotPawn', replace=_NN, min_props=20, timeout=1200),
    Group('setWhiteMove', 'h_setWhiteMove', enforce='Position_setWhiteMove', min_props=5),
    Group('setCastleMask', 'h_setCastleMask', enforce='Position_setCastleMask', min_props=5),
    Group('setEpSquare', 'h_setEpSquare', enforce='Position_setEpSquare', min_props=5),
    Group('staticInitialize', 'h_staticInitialize', enforce='Position_staticInitialize', min_props=5),
    Group('makeMove', 'h_makeMove', enforce='Position_makeMove', replace=_MUT + _NN, min_props=30, timeout=7200, cases=('case', [('CASE_MM=%d' % k,) for k in range(6)])),
    Group('make_unmake', 'h_make_unmake', replace=_MUT + _NN + ('BitBoard_firstSquare',), min_props=30, timeout=10800, tier='thorough'),
    Group('make_unmake_split', 'h_make_unmake', replace=_MUT + _NN + ('BitBoard_firstSquare',), min_props=30, timeout=7200, tier='thorough',   # 6 cases of 7-8 min in parallel (was in the quick tier: too slow for a check run on every change)
          cases=('case', [('CASE_MU=%d' % k,) for k in range(6)])),
    Group('fold_lemma', 'h_fold_lemma', cases=('KK', list(range(64))), min_props=4, timeout=3600, unwind=65),
    Group('serialize', 'h_serialize', enforce='Position_serialize', min_props=5),
    Group('deSerialize', 'h_deSerialize', enforce='Position_deSerialize', replace=('NNEvaluator_forceFullEval',), min_props=5, timeout=1800),
    Group('ser_roundtrip', 'h_ser_roundtrip', replace=('Position_serialize', 'Position_deSerialize'), min_props=2),
    Group('historyHash', 'h_historyHash', enforce='Position_historyHash', replace=('BitBoard_bitCount',), min_props=3),
    Group('bookHash', 'h_bookHash', enforce='Position_bookHash', min_props=3),
]
# fold_lemma (update lemma of the fold ghosts) is built but does not close (see DESIGN 13.3): not part of the claim.
_UNCLAIMED = ('fold_lemma',)
PROPERTIES = {'C02': [g.name for g in GROUPS if g.name not in _UNCLAIMED]}
ASSUMPTIONS = {'C02': [
    'fold ghosts: ghost_H/ghost_PH/ghost_MAT/ghost_WM/.. stand for the from-scratch folds (xor of Zobrist keys, sums of material ids and piece values) of the current board; the single-square update lemma behind them (commutativity and associativity of xor / modular addition over 64 squares) is NOT machine-checked (group fold_lemma exists, SAT proof does not finish)',
    'pinned: squares[] is written only by setPiece, clearPiece, movePieceNotPawn (ghost updates spliced there), the ...B/SEE variants, the constructor and deSerialize',
    'Zobrist key tables and piece values are uninterpreted functions; psHashKeys[EMPTY][*] == 0 is pinned against the initialiser',
    'assumed contracts: NNEvaluator callbacks (setPiece/pushState/popState/forceFullEval) touch evaluator state only (C07)',
    'material sums stay within +-10^6 (precondition; follows from at most 32 men of value <= 9900)',
    'induction over move histories from the per-operation contracts is a paper argument',
]}
NOT_DECIDED = {'C02': ['FEN text write/read round trip (std::string)', 'deSerialize: bitboards, hash keys, material id and material sums it recomputes (only board, flags, clocks and memory safety are under contract)', 'computeZobristHash (loop recomputing the folds)', 'Position copy construction/assignment', 'negative half-move clock accepted by readFEN (outside every extracted function)']}

MUTANTS = [
    dict(name='setPiece_no_phash', file='lib/texellib/position.cpp', pattern=r'            if \(piece == Piece::WPAWN\) \{\n                wMtrlPawns_ \+= pVal;\n                pHashKey \^= psHashKeys\[Piece::WPAWN\]\[sq\];', repl='            if (piece == Piece::WPAWN) {\n                wMtrlPawns_ += pVal;', groups=['setPiece']),
    dict(name='clearPiece_black_material', file='lib/texellib/position.cpp', pattern=r'            bMtrl_ -= pVal;\n            blackBB_ &= ~sqMask;\n            if \(removedPiece == Piece::BPAWN\) \{\n                bMtrlPawns_ -= pVal;\n                pHashKey \^= psHashKeys\[Piece::BPAWN\]\[sq\];\n            \}\n        \}\n    \}\n\}', repl='            bMtrl_ -= pVal;\n            blackBB_ &= ~sqMask;\n            if (removedPiece == Piece::BPAWN) {\n                bMtrlPawns_ += pVal;\n                pHashKey ^= psHashKeys[Piece::BPAWN][sq];\n            }\n        }\n    }\n}', groups=['clearPiece']),
    dict(name='movePiece_hash_to', file='lib/texellib/position.cpp', pattern=r'    hashKey \^= psHashKeys\[piece\]\[to\];', repl='    hashKey ^= psHashKeys[piece][from ^ 1];', groups=['movePieceNotPawn']),
    dict(name='setEpSquare_file_index', file='lib/texellib/position.hpp', pattern=r'hashKey \^= epHashKeys\[epSquare.isValid\(\) \? epSquare.getX\(\) \+ 1 : 0\];', repl='hashKey ^= epHashKeys[epSquare.isValid() ? epSquare.getX() : 0];', groups=['setEpSquare']),
    dict(name='makeMove_castle_rook_square', file='lib/texellib/position.cpp', pattern=r'                movePieceNotPawn\(k0 - 4, k0 - 1\);\n            \}\n        \}\n\n        // Perform move\n        movePieceNotPawn\(move.from\(\), move.to\(\)\);', repl='                movePieceNotPawn(k0 - 3, k0 - 1);\n            }\n        }\n\n        // Perform move\n        movePieceNotPawn(move.from(), move.to());', groups=['makeMove'], count=1),
    dict(name='makeMove_clock_not_reset_on_capture', file='lib/texellib/position.cpp', pattern=r'    if \(\(capP != Piece::EMPTY\) \|\| \(\(pieceTypeBB\(Piece::WPAWN, Piece::BPAWN\) & fromMask\) != 0\)\) \{\n        halfMoveClock = 0;', repl='    if ((capP != Piece::EMPTY) || ((pieceTypeBB(Piece::WPAWN, Piece::BPAWN) & fromMask) != 0)) {\n        halfMoveClock = (capP != Piece::EMPTY && move.promoteTo() != Piece::EMPTY) ? halfMoveClock + 1 : 0;', groups=['makeMove']),
    dict(name='makeMove_fullmove_white', file='lib/texellib/position.cpp', pattern=r'    if \(!wtm\)\n        fullMoveCounter\+\+;\n    whiteMove = !wtm;', repl='    if (wtm)\n        fullMoveCounter++;\n    whiteMove = !wtm;', groups=['makeMove']),
    dict(name='makeMove_ep_black_capture_square', file='lib/texellib/position.cpp', pattern=r'                clearPiece\(move.to\(\) \+ 8\);', repl='                clearPiece(move.to() + 8 - 16 * (move.to().getX() == 7));', groups=['makeMove']),
    dict(name='castleSqMask_h8', file='lib/texellib/position.cpp', pattern=r'castleSqMask\[H8\] &= ~\(1 << H8_CASTLE\);', repl='castleSqMask[H8] &= ~(1 << A8_CASTLE);', groups=['staticInitialize']),
    dict(name='unMakeMove_promotion_colour', file='lib/texellib/position.cpp', pattern=r'        p = wtm \? Piece::WPAWN : Piece::BPAWN;\n        setPiece\(move.from\(\), p\);', repl='        p = wtm ? Piece::WPAWN : Piece::WPAWN;\n        setPiece(move.from(), p);', groups=['make_unmake_split']),
    dict(name='serialize_ep_bits', file='lib/texellib/position.cpp', pattern=r'flags = \(flags << 8\) \| \(epSquare.asInt\(\) & 0xff\);', repl='flags = (flags << 8) | (epSquare.asInt() & 0x3f);', groups=['serialize']),
    dict(name='deSerialize_castle_bits', file='lib/texellib/position.cpp', pattern=r'castleMask = flags & 0xf;', repl='castleMask = flags & 0x7;', groups=['deSerialize']),
    dict(name='matid_signed_again', file='lib/texellib/material.hpp', pattern=r'hash = \(int\)\(\(unsigned int\)hash \+ \(unsigned int\)materialId\[pType\]\);', repl='hash += materialId[pType];', groups=['MatId_addPiece']),
]
