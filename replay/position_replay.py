"""native replay driver for unit position (C02): real makeMove / unMakeMove on the position and move of the CBMC trace"""
import subprocess, os, tempfile, re, sys

WRAP = r'''
static struct Position OP; static struct Move OM;
void oracle_set(const int* sq, int wm, int cm, int ep, int hmc, int fmc) { for (int i = 0; i < 64; i++) OP.squares[i] = sq[i]; OP.whiteMove = wm != 0; OP.castleMask = cm; OP.epSquare = ep; OP.halfMoveClock = hmc; OP.fullMoveCounter = fmc; }
static void om(int f, int t, int p) { OM.from_ = f; OM.to_ = t; OM.promoteTo_ = p; OM.score_ = 0; }
int oracle_shape(int f, int t, int p) { om(f, t, p); return mv_shape(&OP, &OM); }
int oracle_sq_after(int f, int t, int p, int g) { om(f, t, p); return spec_apply_sq(&OP, &OM, g); }
int oracle_castle_after(int f, int t) { return spec_castle_after(OP.castleMask, f, t); }
int oracle_ep_after(int f, int t, int p) { om(f, t, p); return spec_ep_after(&OP, &OM); }
'''


def replay(doc, root):
    if doc.get('function_under_contract') != 'Position_makeMove':
        return {'reproduced': False, 'note': 'no native driver for this function'}
    sys.path.insert(0, os.path.join(root, 'tools'))
    import replay as R
    vals = R.trace_values(doc, first=True)   # makeMove modifies the position: the inputs are the first values the trace reports
    sq = {}; obj = None
    for k, v in vals.items():
        mm = re.match(r'(dynamic_object\$?\d*)\.squares\[(\d+)l?\]$', k)
        if mm:
            obj = mm.group(1); sq[int(mm.group(2))] = R.num(v)
    mobj = None
    for k in vals:
        mm = re.match(r'(dynamic_object\$?\d*)\.from_$', k)
        if mm:
            mobj = mm.group(1)
    if obj is None or len(sq) < 64 or mobj is None:
        return {'reproduced': False, 'note': 'position or move not found in the trace'}
    g = lambda n, d=0: R.num(vals.get(obj + '.' + n), d)
    args = [str(sq[i]) for i in range(64)] + [str(g('whiteMove')), str(g('castleMask')), str(g('epSquare', -1)), str(g('halfMoveClock')), str(g('fullMoveCounter', 1))] + \
           [str(R.num(vals.get(mobj + '.from_'))), str(R.num(vals.get(mobj + '.to_'))), str(R.num(vals.get(mobj + '.promoteTo_')))]
    out = tempfile.mkdtemp(prefix='replay_', dir=os.environ.get('VERIF_TMP', '/var/tmp'))
    try:
        obj_o, err = R.build_oracle(root, 'position', out, WRAP, ['oracle_set', 'oracle_shape', 'oracle_sq_after', 'oracle_castle_after', 'oracle_ep_after'])
        if err:
            return err
        exe = os.path.join(out, 'position_replay')
        err = R.build_native(root, out, 'position_replay.cpp', [obj_o], exe)
        if err:
            return err
        r = subprocess.run([exe] + args, capture_output=True, text=True, timeout=120)
        return {'reproduced': r.returncode == 1, 'args': ' '.join(args), 'stdout': r.stdout[-900:], 'rc': r.returncode}
    except Exception as e:
        return {'reproduced': False, 'note': 'replay driver error: %s' % e}
    finally:
        subprocess.run(['rm', '-rf', out])
