"""Counterexample -> replay file (+ native replay where a driver exists)."""
import os, json, re, subprocess, sys, hashlib

def build_oracle(root, unit, out, wrap_c, keep):
    """Compile the spec text of a unit (generated C file up to the prototypes: prelude, structs, constants, spec functions) plus the given
    wrapper functions as C; every symbol except `keep` becomes local.  Returns (object path, None) or (None, error dict)."""
    sys.path.insert(0, os.path.join(root, 'tools'))
    import runcheck
    m, U, cfile = runcheck.build_unit(unit, out, save=False)
    text = open(cfile).read()
    cut = text.index('/* ---- prototypes ---- */')
    spec_c = os.path.join(out, 'spec_oracle.c')
    with open(spec_c, 'w') as f:
        f.write('#define __CPROVER_assert(c, m) ((void)0)\n' + text[:cut] + wrap_c)
    obj = os.path.join(out, 'spec_oracle.o')
    c1 = subprocess.run(['gcc', '-std=gnu11', '-O1', '-w', '-c', spec_c, '-o', obj], capture_output=True, text=True)
    if c1.returncode != 0:
        return None, {'reproduced': False, 'note': 'spec oracle did not compile', 'stderr': c1.stderr[-1500:]}
    c2 = subprocess.run(['objcopy'] + sum([['-G', k] for k in keep], []) + [obj], capture_output=True, text=True)
    if c2.returncode != 0:
        return None, {'reproduced': False, 'note': 'objcopy failed', 'stderr': c2.stderr[-500:]}
    return obj, None


def build_native(root, out, cpp, objs, exe, extra_src=()):
    """Link a native replay driver against the real texellib of /repo (rebuilt first)."""
    repo = os.environ.get('VERIF_REPO', '/repo')
    L = repo + '/lib/texellib'
    subprocess.run(['cmake', '--build', repo + '/_build', '--target', 'texellib', '-j8'], capture_output=True)
    cmd = ['g++', '-std=c++11', '-O1', '-fno-access-control', '-pthread'] + ['-I' + L + d for d in ('', '/util', '/hw', '/tb', '/nn', '/book', '/debug', '/tb/gtb', '/tb/syzygy')] + \
          ['-I' + repo + '/lib/texelutillib', '-I' + repo + '/lib/texelutillib/pg'] + [os.path.join(root, 'replay', cpp)] + list(extra_src) + list(objs) + [repo + '/_build/lib/texellib/libtexellib.a', '-o', exe, '-lrt']
    c = subprocess.run(cmd, capture_output=True, text=True)
    if c.returncode != 0:
        return {'reproduced': False, 'note': 'native driver did not compile', 'stderr': c.stderr[-1500:]}
    return None


def trace_values(doc, first=False):
    """lhs -> value; last assignment wins, or the first one (initial state of objects that the function under contract modifies)"""
    vals = {}
    for k, v in doc.get('inputs', []):
        if first and k in vals:
            continue
        vals[k] = v
    return vals


def num(v, default=0):
    if v in ('TRUE', 'true'):
        return 1
    if v in ('FALSE', 'false'):
        return 0
    try:
        return int(str(v).rstrip('ul'))
    except (ValueError, TypeError):
        return default


def make_replay(prop, r, f, root):
    name = re.sub(r'[^\w.\-]', '_', '%s-%s.%s-%s' % (prop, r['unit'], r['group'], f.get('property') or 'obligation'))[:150]
    path = os.path.join(root, 'replays', name + '.json')
    doc = {'property': prop, 'unit': r['unit'], 'group': r['group'], 'harness': r['harness'],
           'function_under_contract': r['enforce'], 'obligation': f.get('property'), 'obligation_text': f.get('description'),
           'generated_location': f.get('location'), 'inputs': f.get('inputs', {}), 'cbmc_cmd': r.get('cmd'),
           'verifier_output': f, 'native': None}
    reproduced = False
    try:
        drv = os.path.join(root, 'replay', r['unit'] + '_replay.py')
        if os.path.exists(drv):
            import importlib.util
            spec = importlib.util.spec_from_file_location('rp', drv)
            m = importlib.util.module_from_spec(spec); spec.loader.exec_module(m)
            res = m.replay(doc, root)
            doc['native'] = res
            reproduced = bool(res and res.get('reproduced'))
    except Exception as e:
        doc['native'] = {'error': str(e)}
    with open(path, 'w') as fh:
        json.dump(doc, fh, indent=1)
    return path, reproduced

def main(args):
    path = args[0]
    doc = json.load(open(path))
    root = os.path.dirname(os.path.dirname(os.path.abspath(__file__)))
    drv = os.path.join(root, 'replay', doc['unit'] + '_replay.py')
    if not os.path.exists(drv):
        print('no native replay driver for unit %s; verifier output:' % doc['unit'])
        print(json.dumps(doc['verifier_output'], indent=1)[:3000])
        return 1
    import importlib.util
    spec = importlib.util.spec_from_file_location('rp', drv)
    m = importlib.util.module_from_spec(spec); spec.loader.exec_module(m)
    res = m.replay(doc, root)
    print(json.dumps(res, indent=1))
    return 1 if res.get('reproduced') else 0
