"""Unit tt: transposition table (C08) and the hash-score part of C04.
Functions pulled from lib/texellib/transpositionTable.hpp/.cpp, move.hpp, constants.hpp."""
import sys, os
sys.path.insert(0, os.path.dirname(os.path.dirname(os.path.abspath(__file__))))
from unitlib import Unit
from prove import Group
import common

TT_H = 'lib/texellib/transpositionTable.hpp'
TT_C = 'lib/texellib/transpositionTable.cpp'
MOVE_H = 'lib/texellib/move.hpp'
CONST_H = 'lib/texellib/constants.hpp'


def build():
    U = Unit('tt')
    tr = U.tr
    U.consts(CONST_H, 'SearchConst', ['MATE0', 'UNKNOWN_SCORE'])
    U.consts(CONST_H, 'TType', ['T_EMPTY', 'T_EXACT', 'T_GE', 'T_LE'])
    U.struct(MOVE_H, 'Move', expect=[('Square', 'from_', ''), ('Square', 'to_', ''), ('int', 'promoteTo_', ''), ('int', 'score_', '')],
             default_init='{0, 0, 0, 0}')
    U.struct(TT_H, 'TTEntryStorage', expect=[('std::atomic<U64>', 'key', ''), ('std::atomic<U64>', 'data', '')])
    U.struct(TT_H, 'TTEntry', expect=[('U64', 'key', ''), ('U64', 'data', '')], default_init='{0, 0}')
    U.raw('struct TranspositionTable;\n')
    st = U.struct(TT_H, 'TTStorage', typeover={'table': ('struct TranspositionTable*', 'TranspositionTable', '')},
                  expect=[('TranspositionTable&', 'table', ''), ('U64', 'idx0', '')])
    st.ref_fields.add('table')
    U.struct(TT_H, 'TranspositionTable',
             typeover={'tableP': None, 'tbGen': None, 'ttStorage': ('struct TTStorage', 'TTStorage', '')},
             expect=[('TTEntryStorage*', 'table', ''), ('U64', 'usedSize', ''), ('int', 'usedSizeTopBits', ''),
                     ('int', 'usedSizeShift', ''), ('U64', 'usedSizeMask', ''), ('U8', 'generation', ''),
                     ('U64', 'contemptHash', ''), ('U64', 'tableSize', ''),
                     ('std::shared_ptr<TTEntryStorage>', 'tableP', ''), ('TTStorage', 'ttStorage', ''),
                     ('std::unique_ptr<TBGenerator<TTStorage>>', 'tbGen', ''), ('int', 'notUsedCnt', '')],
             extra=['_Bool ghost_tbGen_nonnull;  /* stands for tbGen != nullptr (unique_ptr omitted) */',
                    '_Bool ghost_tb_complete;    /* ghost: generate() returned true for the resident table */'])
    P = U.pull
    P(CONST_H, 'SearchConst::isWinScore', cname='isWinScore')
    P(CONST_H, 'SearchConst::isLoseScore', cname='isLoseScore')
    for m, n in (('from', 0), ('to', 0), ('promoteTo', 0), ('score', 0), ('setMove', 4), ('setScore', 1),
                 ('getCompressedMove', 0), ('setFromCompressed', 1), ('isEmpty', 0)):
        P(MOVE_H, 'Move::' + m, nparams=n)
    for m in ('clear', 'store', 'load', 'betterThan', 'getKey', 'setKey', 'getData', 'getMove', 'setMove', 'getScore',
              'setScore', 'isCutOff', 'getDepth', 'setDepth', 'getBusy', 'setBusy', 'getGeneration', 'setGeneration',
              'getType', 'setType', 'getEvalScore', 'setEvalScore', 'setBits', 'getBits'):
        P(TT_H, 'TranspositionTable::TTEntry::' + m, cname='TTEntry_' + m)
    P(TT_C, 'TranspositionTable::setUsedSize')
    P(TT_H, 'TranspositionTable::getIndex')
    P(TT_H, 'TranspositionTable::probe')
    P(TT_C, 'TranspositionTable::insert')
    P(TT_C, 'TranspositionTable::setBusy')
    P(TT_H, 'TranspositionTable::nextGeneration')
    P(TT_H, 'TranspositionTable::getByte')
    P(TT_H, 'TranspositionTable::putByte')
    P(TT_H, 'TranspositionTable::byteSize')
    P(TT_C, 'TranspositionTable::setWhiteContempt')
    P(TT_H, 'TTStorage::resize')
    # ---- on-demand tablebase installation (C12a, and the size argument of C08) ----
    common.pieces(U)
    common.bit_primitives(U)
    POS_H = common.POS_H
    U.struct(POS_H, 'Position', bases=('PositionBase',), only=['pieceTypeBB_', 'whiteBB_', 'blackBB_'])
    U.tr.variadic_or.add(('Position', 'pieceTypeBB'))
    for m, n in (('whiteBB', 0), ('blackBB', 0), ('occupiedBB', 0), ('pieceTypeBB', 1)):
        P(POS_H, 'Position::' + m, nparams=n)
    U.struct('lib/texellib/tb/tbgen.hpp', 'PieceCount', expect=[('int', 'nwq', ''), ('int', 'nwr', ''), ('int', 'nwb', ''), ('int', 'nwn', ''),
                                                                 ('int', 'nbq', ''), ('int', 'nbr', ''), ('int', 'nbb', ''), ('int', 'nbn', '')],
             default_init='{0, 0, 0, 0, 0, 0, 0, 0}')
    U.tr.typemap['RelaxedShared<S64>'] = 'S64'
    tt = U.tr.classes['TranspositionTable']
    tt.fields['ghost_tbGen_nonnull'] = ('bool', '')
    tt.fields['ghost_tb_complete'] = ('bool', '')
    U.raw('S64 TranspositionTable_updateTB_requiredTime;   /* function-local `static S64 requiredTime = 3000;` */\n')
    U.passthrough('TranspositionTable_updateTB_requiredTime')
    U.stub('ghost_tbgen_probeDTM', '_Bool ghost_tbgen_probeDTM(struct TranspositionTable* tt, const struct Position* pos, int ply, int* score)')
    U.stub('ghost_tbgen_generate', '_Bool ghost_tbgen_generate(struct TranspositionTable* tt, S64* maxTimeMillis)')
    P(TT_C, 'TranspositionTable::updateTB', rules=[
        (r'\btbGen && notUsedCnt\+\+ > 3', 'ghost_tbGen_nonnull && notUsedCnt++ > 3', 1),
        (r'tbGen\.reset\(\);', 'ghost_tbGen_nonnull = false; ghost_tb_complete = false;', '1+'),
        (r'return tbGen != nullptr;', 'return ghost_tbGen_nonnull;', 1),
        (r'\btbGen && tbGen->probeDTM\(pos, 0, score\)', 'ghost_tbGen_nonnull && ghost_tbgen_probeDTM(this, &pos, 0, &score)', 1),
        (r'static S64 requiredTime = 3000;', '', 1),
        (r'\brequiredTime\b', 'TranspositionTable_updateTB_requiredTime', '3+'),
        (r'tbGen = make_unique<TBGenerator<TTStorage>>\(ttStorage, pc\);', 'ghost_tbGen_nonnull = true; ghost_tb_complete = false; ghost_pc = pc;', 1),
        (r'!tbGen->generate\(maxTimeMillis, false\)', '!ghost_tbgen_generate(this, &maxTimeMillis)', 1),
    ], extra_locals={'ghost_pc': ('val', 'PieceCount')})
    U.raw('struct PieceCount ghost_pc;  /* piece counts handed to the TBGenerator constructor */\n')
    U.fragment(TT_C, 'TranspositionTable_clear_head', r'TranspositionTable::clear\(\) \{', r'if \(tableSize > 1024\*1024 && \(tableSize % 1024\) == 0\)',
               params=[], cls='TranspositionTable', is_static=False,
               rules=[(r'TranspositionTable::clear\(\) \{', '', 1), (r'tbGen\.reset\(\);', 'ghost_tbGen_nonnull = false; ghost_tb_complete = false;', 1)])
    return U


# ------------------------------------------------------------------------------------------
# Spec text (placed before the prototypes so that contracts can use it)
# ------------------------------------------------------------------------------------------
SPEC = common.BIT_SPEC + r'''
/* index-computation invariant established by setUsedSize (C08: "for every table size the engine
   can configure (>= 512 entries) and every key, all accesses stay inside the table") */
#define TT_IDX_INV(t) ( (t)->usedSize >= 512 && (t)->usedSize <= (1ULL << 44) \
  && (t)->usedSizeTopBits >= 128 && (t)->usedSizeTopBits < 256 \
  && (t)->usedSizeShift >= 2 && (t)->usedSizeShift <= 37 \
  && (((U64)(t)->usedSizeTopBits) << (t)->usedSizeShift) <= (t)->usedSize \
  && (t)->usedSize < ((((U64)(t)->usedSizeTopBits) + 1) << (t)->usedSizeShift) \
  && (t)->usedSizeMask == (((1ULL << (t)->usedSizeShift) - 1) & ~3ULL) )
#define TB_SIZE (5ULL * 1024 * 1024)      /* bytes reserved for an on-demand tablebase */
/* class invariant of the table w.r.t. a resident on-demand tablebase (C12: "an aborted generation never leaves
   a partially computed table in use"; C08: "ordinary stores never touch that part") */
#define TB_INV(t) ( ((t)->ghost_tbGen_nonnull ? ((t)->ghost_tb_complete && (t)->tableSize * 16 >= TB_SIZE + 2 * 1024 * 1024 && (t)->usedSize == (t)->tableSize - TB_SIZE / 16) \
                                              : (t)->usedSize == (t)->tableSize) \
                  && (t)->tableSize % 4 == 0 && (t)->tableSize >= 512 && (t)->tableSize <= (1ULL << 44) && TT_IDX_INV(t) )
#define ENT_EQ(a, b) ((a).key == (b).key && (a).data == (b).data)
U64 ghost_j, ghost_k; int ghost_q;
/* record layout as documented in transpositionTable.hpp (move 0/16, score 16/16, depth 32/9, busy 41/1,
   generation 42/4, type 46/2, evalScore 48/16) */
static int spec_rec_move(U64 d)  { return (int)(d & 0xffff); }
/* 16-bit move code of TTEntry::setMove: from + (to << 6) + (promoteTo << 12) */
#define SPEC_MOVE_CODE(m) (((m)->from_ + ((m)->to_ << 6) + ((m)->promoteTo_ << 12)) & 0xffff)
static int spec_rec_depth(U64 d) { return (int)((d >> 32) & 0x1ff); }
static int spec_rec_busy(U64 d)  { return (int)((d >> 41) & 1); }
static int spec_rec_gen(U64 d)   { return (int)((d >> 42) & 15); }
static int spec_rec_type(U64 d)  { return (int)((d >> 46) & 3); }
static int spec_rec_eval(U64 d)  { U16 w = (U16)(d >> 48); return w >= 32768 ? (int)w - 65536 : (int)w; }
static int spec_rec_score(U64 d, int ply) {
    U16 w = (U16)(d >> 16); int sc = w >= 32768 ? (int)w - 65536 : (int)w;
    if (sc > SearchConst_MATE0 / 2) sc -= ply; else if (sc < -(SearchConst_MATE0 / 2)) sc += ply;
    return sc;
}
#define SPEC_BYTE(t, idx) ((U8)(((((idx) % 16) < 8) ? (t)[(idx) / 16].key : (t)[(idx) / 16].data) >> (((idx) % 8) * 8)))
'''

CONTRACTS = {
    'TranspositionTable_setUsedSize': {
        'requires': ['__CPROVER_is_fresh(self, sizeof(*self))', 's >= 512 && s <= (1ULL << 44)'],
        'assigns': ['self->usedSize, self->usedSizeShift, self->usedSizeTopBits, self->usedSizeMask'],
        'ensures': ['self->usedSize == s', 'TT_IDX_INV(self)'],
        'loops': {0: {'assigns': 'topBits, self->usedSizeShift',
                      'invariant': ['0 <= self->usedSizeShift && self->usedSizeShift <= 44',
                                    'topBits == (self->usedSize >> self->usedSizeShift)',
                                    'topBits >= 128'],
                      'decreases': 'topBits'}},
    },
    'TranspositionTable_getIndex': {
        'requires': ['__CPROVER_is_fresh(self, sizeof(*self))', 'TT_IDX_INV(self)'],
        'assigns': [],
        'ensures': ['__CPROVER_return_value % 4 == 0', '__CPROVER_return_value + 3 < self->usedSize'],
    },
    # storage encoding: the abstract view of a stored record is (key ^ data, data)
    'TTEntry_store': {
        'requires': ['__CPROVER_is_fresh(self, sizeof(*self))', '__CPROVER_is_fresh(ent, sizeof(*ent))'],
        'assigns': ['ent->key, ent->data'],
        'ensures': ['(ent->key ^ ent->data) == self->key', 'ent->data == self->data'],
    },
    'TTEntry_load': {
        'requires': ['__CPROVER_is_fresh(self, sizeof(*self))', '__CPROVER_is_fresh(ent, sizeof(*ent))'],
        'assigns': ['self->key, self->data'],
        'ensures': ['self->key == (ent->key ^ ent->data)', 'self->data == ent->data'],
    },
    'TranspositionTable_probe': {
        # the table object is modelled as exactly the used prefix: any access at or beyond usedSize
        # (i.e. into a resident tablebase or out of the table) is a pointer-check failure
        'requires': ['__CPROVER_is_fresh(self, sizeof(*self))', 'TT_IDX_INV(self)',
                     '__CPROVER_is_fresh(self->table, self->usedSize * sizeof(struct TTEntryStorage))',
                     '__CPROVER_is_fresh(result, sizeof(*result))', 'self->generation < 16', 'ghost_j < self->usedSize && ghost_k < self->usedSize'],
        'assigns': ['__CPROVER_object_whole(self->table)', '*result'],
        'ensures': [
            # miss, or a record stored as one unit under exactly that key
            'spec_rec_type(result->data) == TType_T_EMPTY || result->key == (key ^ self->contemptHash)',
            # at most one slot changes (generation refresh of the hit)
            '(ghost_j != ghost_k) ==> (ENT_EQ(self->table[ghost_j], __CPROVER_old(self->table[ghost_j])) || ENT_EQ(self->table[ghost_k], __CPROVER_old(self->table[ghost_k])))',
            # a changed slot still decodes to the probed key, and only its generation field differs
            '!ENT_EQ(self->table[ghost_j], __CPROVER_old(self->table[ghost_j])) ==> ((self->table[ghost_j].key ^ self->table[ghost_j].data) == (key ^ self->contemptHash) && (self->table[ghost_j].data & ~(15ULL << 42)) == (__CPROVER_old(self->table[ghost_j].data) & ~(15ULL << 42)) && (__CPROVER_old(self->table[ghost_j].key) ^ __CPROVER_old(self->table[ghost_j].data)) == (key ^ self->contemptHash))',
        ],
    },
    'TranspositionTable_insert': {
        'requires': ['__CPROVER_is_fresh(self, sizeof(*self))', 'TT_IDX_INV(self)',
                     '__CPROVER_is_fresh(self->table, self->usedSize * sizeof(struct TTEntryStorage))',
                     '__CPROVER_is_fresh(sm, sizeof(*sm))', 'self->generation < 16', 'ghost_j < self->usedSize && ghost_k < self->usedSize',
                     '0 <= ply && ply <= 700', '-SearchConst_MATE0 <= sm->score_ && sm->score_ <= SearchConst_MATE0',
                     'depth <= 511', '0 <= type && type <= 3', '-32768 <= evalScore && evalScore <= 32767',
                     '0 <= sm->from_ && sm->from_ < 64 && 0 <= sm->to_ && sm->to_ < 64 && 0 <= sm->promoteTo_ && sm->promoteTo_ < 13'],
        'assigns': ['__CPROVER_object_whole(self->table)'],
        'ensures': [
            # at most one slot of the whole table changes
            '(ghost_j < self->usedSize && ghost_k < self->usedSize && ghost_j != ghost_k) ==> (ENT_EQ(self->table[ghost_j], __CPROVER_old(self->table[ghost_j])) || ENT_EQ(self->table[ghost_k], __CPROVER_old(self->table[ghost_k])))',
            # a changed slot holds one complete record for exactly this key
            '(ghost_j < self->usedSize && !ENT_EQ(self->table[ghost_j], __CPROVER_old(self->table[ghost_j]))) ==> ((self->table[ghost_j].key ^ self->table[ghost_j].data) == (key ^ self->contemptHash) && spec_rec_depth(self->table[ghost_j].data) == (depth < 0 ? 0 : depth) && spec_rec_type(self->table[ghost_j].data) == type && spec_rec_eval(self->table[ghost_j].data) == evalScore && spec_rec_gen(self->table[ghost_j].data) == self->generation && (spec_rec_busy(self->table[ghost_j].data) != 0) == (busy != 0) && spec_rec_score(self->table[ghost_j].data, ply) == sm->score_)',
            # ... and its move belongs to this writer too: the stored move, except that a record without a move (from == to) written over a record of
            # the SAME key keeps that record's move; a move of another key's record never survives (no blend of two writers)
            '(ghost_j < self->usedSize && !ENT_EQ(self->table[ghost_j], __CPROVER_old(self->table[ghost_j]))) ==> (spec_rec_move(self->table[ghost_j].data) == '
            '(((__CPROVER_old(self->table[ghost_j].key) ^ __CPROVER_old(self->table[ghost_j].data)) == (key ^ self->contemptHash) && sm->from_ == sm->to_) ? spec_rec_move(__CPROVER_old(self->table[ghost_j].data)) : SPEC_MOVE_CODE(sm)))',
        ],
    },
    # setBusy re-inserts a probed record with the ABDADA busy flag: the re-stored record must mean the same as the probed one
    # (same score as read at this ply - hence the same mate distance -, type, depth, evaluation, move), for the key insert() derives from
    # ent.getKey().  (Observation, outside the listed properties: ent.getKey() is the stored key = position key ^ contemptHash and insert()
    # xors contemptHash again, so with a non-zero Contempt the busy record goes to the bucket of another key; DESIGN 13.9.)
    'TranspositionTable_setBusy': {
        'requires': ['__CPROVER_is_fresh(self, sizeof(*self))', 'TT_IDX_INV(self)',
                     '__CPROVER_is_fresh(self->table, self->usedSize * sizeof(struct TTEntryStorage))',
                     '__CPROVER_is_fresh(ent, sizeof(*ent))', 'self->generation < 16', 'ghost_j < self->usedSize && ghost_k < self->usedSize',
                     '0 <= ply && ply <= 700',
                     # ent is a record as insert() writes them: promotion code of the move below 13, score within the mate range at this ply
                     # (the only call site, negaScout, calls setBusy for entries of a type other than T_EMPTY)
                     'spec_rec_type(ent->data) != TType_T_EMPTY',
                     '((spec_rec_move(ent->data) >> 12) & 15) < 13', '-SearchConst_MATE0 <= spec_rec_score(ent->data, ply) && spec_rec_score(ent->data, ply) <= SearchConst_MATE0'],
        'assigns': ['__CPROVER_object_whole(self->table)'],
        'ensures': [
            '(ghost_j < self->usedSize && ghost_k < self->usedSize && ghost_j != ghost_k) ==> (ENT_EQ(self->table[ghost_j], __CPROVER_old(self->table[ghost_j])) || ENT_EQ(self->table[ghost_k], __CPROVER_old(self->table[ghost_k])))',
            '(ghost_j < self->usedSize && !ENT_EQ(self->table[ghost_j], __CPROVER_old(self->table[ghost_j]))) ==> ((self->table[ghost_j].key ^ self->table[ghost_j].data) == (ent->key ^ self->contemptHash)'
            ' && spec_rec_depth(self->table[ghost_j].data) == spec_rec_depth(ent->data) && spec_rec_type(self->table[ghost_j].data) == spec_rec_type(ent->data)'
            ' && spec_rec_eval(self->table[ghost_j].data) == spec_rec_eval(ent->data) && spec_rec_busy(self->table[ghost_j].data) != 0'
            ' && spec_rec_score(self->table[ghost_j].data, ply) == spec_rec_score(ent->data, ply))',
        ],
    },
    'TTEntry_setScore': {
        'requires': ['__CPROVER_is_fresh(self, sizeof(*self))', '0 <= ply && ply <= 700',
                     '-SearchConst_MATE0 <= score && score <= SearchConst_MATE0'],
        'assigns': ['self->data'],
        'ensures': ['spec_rec_score(self->data, ply) == score',
                    # read at another ply q: shifted by exactly the ply difference
                    '(0 <= ghost_q && ghost_q <= 700 && score > SearchConst_MATE0 / 2) ==> spec_rec_score(self->data, ghost_q) == score + ply - ghost_q',
                    '(0 <= ghost_q && ghost_q <= 700 && score < -(SearchConst_MATE0 / 2)) ==> spec_rec_score(self->data, ghost_q) == score - ply + ghost_q',
                    '(0 <= ghost_q && ghost_q <= 700 && score <= SearchConst_MATE0 / 2 && score >= -(SearchConst_MATE0 / 2)) ==> spec_rec_score(self->data, ghost_q) == score',
                    '(self->data & ~(0xffffULL << 16)) == (__CPROVER_old(self->data) & ~(0xffffULL << 16))'],
    },
    'TTEntry_getScore': {
        'requires': ['__CPROVER_is_fresh(self, sizeof(*self))', '0 <= ply && ply <= 700'],
        'assigns': [],
        'ensures': ['__CPROVER_return_value == spec_rec_score(self->data, ply)'],
    },
    'TranspositionTable_getByte': {
        'requires': ['__CPROVER_is_fresh(self, sizeof(*self))', 'self->tableSize >= 4 && self->tableSize <= (1ULL << 44)',
                     '__CPROVER_is_fresh(self->table, self->tableSize * sizeof(struct TTEntryStorage))',
                     'idx < self->tableSize * sizeof(struct TTEntryStorage)'],
        'assigns': [],
        'ensures': ['__CPROVER_return_value == SPEC_BYTE(self->table, idx)'],
    },
    'TranspositionTable_putByte': {
        'requires': ['__CPROVER_is_fresh(self, sizeof(*self))', 'self->tableSize >= 4 && self->tableSize <= (1ULL << 44)',
                     '__CPROVER_is_fresh(self->table, self->tableSize * sizeof(struct TTEntryStorage))',
                     'idx < self->tableSize * sizeof(struct TTEntryStorage)', 'ghost_j < self->tableSize * sizeof(struct TTEntryStorage)'],
        'assigns': ['__CPROVER_object_whole(self->table)'],
        'ensures': ['SPEC_BYTE(self->table, idx) == value',
                    # every other byte of the table is unchanged (ghost byte index)
                    '(ghost_j < self->tableSize * sizeof(struct TTEntryStorage) && ghost_j != idx) ==> SPEC_BYTE(self->table, ghost_j) == __CPROVER_old(SPEC_BYTE(self->table, ghost_j))'],
    },
    'TranspositionTable_byteSize': {
        'requires': ['__CPROVER_is_fresh(self, sizeof(*self))', 'self->tableSize <= (1ULL << 44)'],
        'assigns': [],
        'ensures': ['__CPROVER_return_value == self->tableSize * 16'],
    },
    'TTStorage_resize': {
        'requires': ['__CPROVER_is_fresh(self, sizeof(*self))', '__CPROVER_is_fresh(self->table, sizeof(*self->table))',
                     'self->table->tableSize <= (1ULL << 44)', 'self->table->tableSize * 16 > size'],
        'assigns': ['self->idx0'],
        'ensures': ['self->idx0 == self->table->tableSize * 16 - size'],
    },
}

CONTRACTS['TTEntry_isCutOff'] = {
    'requires': ['__CPROVER_is_fresh(self, sizeof(*self))', '0 <= ply && ply <= 700',
                 '-32767 <= alpha && alpha <= 32767 && -32767 <= beta && beta <= 32767'],
    'assigns': [],
    'ensures': [
        # an empty slot never cuts
        'spec_rec_type(self->data) == TType_T_EMPTY ==> !__CPROVER_return_value',
        # bounds are only used in their own direction
        '(__CPROVER_return_value && spec_rec_type(self->data) == TType_T_GE) ==> spec_rec_score(self->data, ply) >= beta',
        '(__CPROVER_return_value && spec_rec_type(self->data) == TType_T_LE) ==> spec_rec_score(self->data, ply) <= alpha',
        # a too shallow entry cuts only with a mate score on the right side of the window
        '(__CPROVER_return_value && spec_rec_depth(self->data) < depth) ==> ((spec_rec_score(self->data, ply) > SearchConst_MATE0 / 2 && spec_rec_score(self->data, ply) >= beta && spec_rec_type(self->data) != TType_T_LE) || (spec_rec_score(self->data, ply) < -(SearchConst_MATE0 / 2) && spec_rec_score(self->data, ply) <= alpha && spec_rec_type(self->data) != TType_T_GE))',
        # a lower-bound (or exact) winning mate score >= beta cuts regardless of depth
        '(spec_rec_score(self->data, ply) > SearchConst_MATE0 / 2 && spec_rec_score(self->data, ply) >= beta && (spec_rec_type(self->data) == TType_T_GE || spec_rec_type(self->data) == TType_T_EXACT)) ==> __CPROVER_return_value',
        '(spec_rec_score(self->data, ply) < -(SearchConst_MATE0 / 2) && spec_rec_score(self->data, ply) <= alpha && (spec_rec_type(self->data) == TType_T_LE || spec_rec_type(self->data) == TType_T_EXACT)) ==> __CPROVER_return_value',
        # deep enough exact entries always cut
        '(spec_rec_depth(self->data) >= depth && spec_rec_type(self->data) == TType_T_EXACT) ==> __CPROVER_return_value',
    ],
}

CONTRACTS.update(common.BIT_CONTRACTS)
CONTRACTS['ghost_tbgen_probeDTM'] = {   # assumed: TBGenerator::probeDTM reads the table only
    'assigns': ['*score'], 'ensures': ['1']}
CONTRACTS['ghost_tbgen_generate'] = {   # assumed: generate() writes TB bytes (entries >= tableSize - TB_SIZE/16, see lemma_tbregion) and reports completion
    'assigns': ['tt->ghost_tb_complete'], 'ensures': ['tt->ghost_tb_complete == __CPROVER_return_value']}
CONTRACTS['TranspositionTable_updateTB'] = {
    'requires': ['__CPROVER_is_fresh(self, sizeof(*self))', '__CPROVER_is_fresh(pos, sizeof(*pos))', '__CPROVER_is_fresh(maxTimeMillis, sizeof(S64))',
                 'TB_INV(self)', '0 <= self->notUsedCnt && self->notUsedCnt < 1000', '0 <= TranspositionTable_updateTB_requiredTime && TranspositionTable_updateTB_requiredTime < (1LL << 60)',
                 '*maxTimeMillis < (1LL << 60)'],
    'assigns': ['self->usedSize, self->usedSizeShift, self->usedSizeTopBits, self->usedSizeMask, self->notUsedCnt, self->ghost_tbGen_nonnull, self->ghost_tb_complete',
                'TranspositionTable_updateTB_requiredTime', 'ghost_pc'],
    'ensures': ['TB_INV(self)',
                # "return true if TBs are available"
                '__CPROVER_return_value ==> (self->ghost_tbGen_nonnull && self->ghost_tb_complete)'],
}
CONTRACTS['TranspositionTable_clear_head'] = {
    'requires': ['__CPROVER_is_fresh(self, sizeof(*self))', 'self->tableSize % 4 == 0 && self->tableSize >= 512 && self->tableSize <= (1ULL << 44)'],
    'assigns': ['self->usedSize, self->usedSizeShift, self->usedSizeTopBits, self->usedSizeMask, self->notUsedCnt, self->ghost_tbGen_nonnull, self->ghost_tb_complete'],
    'ensures': ['TB_INV(self)', '!self->ghost_tbGen_nonnull'],
}

HARNESS = r"""
#ifdef CANARY
#define CANARY_POINT __CPROVER_assert(0, "canary: harness end reachable")
#else
#define CANARY_POINT
#endif
U64 nondet_u64(void); int nondet_int(void); _Bool nondet_bool(void);
#define HAVOC_GHOSTS do { ghost_j = nondet_u64(); ghost_k = nondet_u64(); ghost_q = nondet_int(); } while (0)

void h_setUsedSize(void) { struct TranspositionTable* t; U64 s; HAVOC_GHOSTS; TranspositionTable_setUsedSize(t, s); CANARY_POINT; }
void h_getIndex(void) { struct TranspositionTable* t; U64 key; HAVOC_GHOSTS; TranspositionTable_getIndex(t, key); CANARY_POINT; }
void h_store(void) { struct TTEntry* e; struct TTEntryStorage* s; TTEntry_store(e, s); CANARY_POINT; }
void h_load(void) { struct TTEntry* e; struct TTEntryStorage* s; TTEntry_load(e, s); CANARY_POINT; }
void h_probe(void) { struct TranspositionTable* t; U64 key; struct TTEntry* r; HAVOC_GHOSTS; TranspositionTable_probe(t, key, r); CANARY_POINT; }
void h_insert(void) { struct TranspositionTable* t; U64 key; struct Move* sm; int type, ply, depth, ev; _Bool busy = (nondet_int() != 0); /* a C++ bool is 0 or 1 */ HAVOC_GHOSTS;
    TranspositionTable_insert(t, key, sm, type, ply, depth, ev, busy); CANARY_POINT; }
void h_setBusy(void) { struct TranspositionTable* t; struct TTEntry* e; int ply; HAVOC_GHOSTS; TranspositionTable_setBusy(t, e, ply); CANARY_POINT; }
void h_setScore(void) { struct TTEntry* e; int score, ply; HAVOC_GHOSTS; TTEntry_setScore(e, score, ply); CANARY_POINT; }
void h_getScore(void) { struct TTEntry* e; int ply; TTEntry_getScore(e, ply); CANARY_POINT; }
void h_isCutOff(void) { struct TTEntry* e; int a, b, ply, d; TTEntry_isCutOff(e, a, b, ply, d); CANARY_POINT; }
void h_getByte(void) { struct TranspositionTable* t; U64 idx; TranspositionTable_getByte(t, idx); CANARY_POINT; }
void h_putByte(void) { struct TranspositionTable* t; U64 idx; U8 v; HAVOC_GHOSTS; TranspositionTable_putByte(t, idx, v); CANARY_POINT; }
void h_byteSize(void) { struct TranspositionTable* t; TranspositionTable_byteSize(t); CANARY_POINT; }
void h_updateTB(void) { struct TranspositionTable* t; struct Position* p; S64* mt; HAVOC_GHOSTS; TranspositionTable_updateTB_requiredTime = (S64)nondet_u64();
    TranspositionTable_updateTB(t, p, mt); CANARY_POINT; }
void h_clear_head(void) { struct TranspositionTable* t; TranspositionTable_clear_head(t); CANARY_POINT; }
void h_resize(void) { struct TTStorage* s; U32 size; TTStorage_resize(s, size); CANARY_POINT; }

/* Lemma (torn reads): two records A,B stored as units; a reader sees any mix of their 64-bit words.
   Whenever the decoded key equals a writer's key the decoded record is one of the two records
   stored as a unit (both writers may use the same key).
   store/load are used through their contracts. */
void h_lemma_torn(void) {
    struct TTEntry a, b, r; struct TTEntryStorage sa, sb, t; _Bool c0 = (nondet_int() != 0), c1 = (nondet_int() != 0);
    a.key = nondet_u64(); a.data = nondet_u64(); b.key = nondet_u64(); b.data = nondet_u64();
    TTEntry_store(&a, &sa); TTEntry_store(&b, &sb);
    t.key = c0 ? sa.key : sb.key; t.data = c1 ? sa.data : sb.data;
    TTEntry_load(&r, &t);
    /* a reader probing for a key that either writer used gets a record one writer stored as a unit for that key */
    __CPROVER_assert(!(r.key == a.key || r.key == b.key) || ENT_EQ(r, a) || ENT_EQ(r, b), "torn read: a hit for a writer's key returns that key's complete record, never a blend");
    __CPROVER_assert(!(c0 && c1) || ENT_EQ(r, a), "untorn read of A returns A");
    __CPROVER_assert(!(!c0 && !c1) || ENT_EQ(r, b), "untorn read of B returns B");
    __CPROVER_assert(!(c0 && !c1) || r.key == (a.key ^ a.data ^ b.data), "mixed pair validates only for the xor-collision key");
    CANARY_POINT;
}

/* Lemma (field independence, real accessor bodies): every setter changes exactly its own field. */
void h_lemma_fields(void) {
    struct TTEntry e; e.key = nondet_u64(); e.data = nondet_u64();
    struct Move m0 = {0,0,0,0}; TTEntry_getMove(&e, &m0);
    int mv0 = spec_rec_move(e.data), sc0 = (int)(S16)((e.data >> 16) & 0xffff), d0 = TTEntry_getDepth(&e); _Bool b0 = TTEntry_getBusy(&e);
    int g0 = TTEntry_getGeneration(&e), t0 = TTEntry_getType(&e), ev0 = TTEntry_getEvalScore(&e); U64 k0 = TTEntry_getKey(&e);
    __CPROVER_assert(d0 == spec_rec_depth(e.data) && b0 == spec_rec_busy(e.data) && g0 == spec_rec_gen(e.data) && t0 == spec_rec_type(e.data) && ev0 == spec_rec_eval(e.data), "getters read the documented bit fields");
    int sel = nondet_int(); int v = nondet_int();
    struct Move m; m.from_ = nondet_int(); m.to_ = nondet_int(); m.promoteTo_ = nondet_int(); m.score_ = nondet_int();
    __CPROVER_assume(0 <= m.from_ && m.from_ < 64 && 0 <= m.to_ && m.to_ < 64 && 0 <= m.promoteTo_ && m.promoteTo_ < 16);
    if (sel == 0) { TTEntry_setMove(&e, &m); struct Move r = {0,0,0,0}; r.score_ = 77; TTEntry_getMove(&e, &r);
        __CPROVER_assert(r.from_ == m.from_ && r.to_ == m.to_ && r.promoteTo_ == m.promoteTo_ && r.score_ == 77, "setMove/getMove inverse, score untouched"); mv0 = spec_rec_move(e.data); }
    else if (sel == 1) { __CPROVER_assume(0 <= v && v < 512); TTEntry_setDepth(&e, v); __CPROVER_assert(TTEntry_getDepth(&e) == v, "depth"); d0 = v; }
    else if (sel == 2) { __CPROVER_assume(v == 0 || v == 1); TTEntry_setBusy(&e, v); __CPROVER_assert(TTEntry_getBusy(&e) == v, "busy"); b0 = v; }
    else if (sel == 3) { __CPROVER_assume(0 <= v && v < 16); TTEntry_setGeneration(&e, v); __CPROVER_assert(TTEntry_getGeneration(&e) == v, "generation"); g0 = v; }
    else if (sel == 4) { __CPROVER_assume(0 <= v && v < 4); TTEntry_setType(&e, v); __CPROVER_assert(TTEntry_getType(&e) == v, "type"); t0 = v; }
    else if (sel == 5) { __CPROVER_assume(-32768 <= v && v < 32768); TTEntry_setEvalScore(&e, v); __CPROVER_assert(TTEntry_getEvalScore(&e) == v, "evalScore"); ev0 = v; }
    else if (sel == 6) { U64 k = nondet_u64(); TTEntry_setKey(&e, k); k0 = k; }
    else if (sel == 7) { __CPROVER_assume(-32768 <= v && v < 32768); TTEntry_setBits(&e, 16, 16, v); sc0 = v; }
    __CPROVER_assert(spec_rec_move(e.data) == mv0 && (int)(S16)((e.data >> 16) & 0xffff) == sc0 && TTEntry_getDepth(&e) == d0 && TTEntry_getBusy(&e) == b0
        && TTEntry_getGeneration(&e) == g0 && TTEntry_getType(&e) == t0 && TTEntry_getEvalScore(&e) == ev0 && TTEntry_getKey(&e) == k0,
        "all other fields unchanged");
    CANARY_POINT;
}

/* Lemma (TB region disjoint from hash accesses): with a resident tablebase of at most TB_SIZE bytes,
   usedSize = tableSize - TB_SIZE/16 and idx0 = byteSize - size: every TB byte lies in an entry >= usedSize
   (and inside the table), every hash access in an entry < usedSize (getIndex contract). */
void h_lemma_tbregion(void) {
    struct TranspositionTable t; struct TTStorage st; st.table = &t;
    t.tableSize = nondet_u64(); U32 size = (U32)nondet_u64(); U32 i = (U32)nondet_u64();
    __CPROVER_assume(t.tableSize % 4 == 0 && t.tableSize <= (1ULL << 44));
    __CPROVER_assume(t.tableSize * 16 >= TB_SIZE + 2 * 1024 * 1024);   /* updateTB's own guard */
    __CPROVER_assume(size <= TB_SIZE && i < size && size > 0);
    TTStorage_resize(&st, size);
    U64 used = t.tableSize - TB_SIZE / 16;
    U64 byteIdx = st.idx0 + i;
    __CPROVER_assert(byteIdx / 16 >= used, "TB byte lies at or above usedSize");
    __CPROVER_assert(byteIdx < t.tableSize * 16, "TB byte lies inside the table");
    __CPROVER_assert(used >= 512, "reduced size stays in the domain of the index proof");
    CANARY_POINT;
}
"""

# constant-trip loops (4 slots per bucket): unrolled completely, with unwinding assertions
UNWIND = {'TranspositionTable_probe': 5, 'TranspositionTable_insert': 5, 'spec_popcount': 65, 'spec_lowest': 65, 'spec_highest': 65}
GROUPS = [
    Group('setUsedSize', 'h_setUsedSize', enforce='TranspositionTable_setUsedSize', loop_contracts=True,
          no_unwind_funcs=('TranspositionTable_setUsedSize',), min_props=20, expect_loop_props=1),
    Group('getIndex', 'h_getIndex', enforce='TranspositionTable_getIndex', min_props=5),
    Group('store', 'h_store', enforce='TTEntry_store', min_props=3),
    Group('load', 'h_load', enforce='TTEntry_load', min_props=3),
    Group('probe', 'h_probe', enforce='TranspositionTable_probe', replace=('TTEntry_load', 'TTEntry_store', 'TranspositionTable_getIndex'), min_props=10),
    Group('setBusy', 'h_setBusy', enforce='TranspositionTable_setBusy', replace=('TranspositionTable_insert', 'TTEntry_getScore'), min_props=5, timeout=3600),
    Group('insert', 'h_insert', enforce='TranspositionTable_insert', replace=('TTEntry_load', 'TTEntry_store', 'TTEntry_setScore', 'TTEntry_getScore', 'TranspositionTable_getIndex'), min_props=10, timeout=3600),
    Group('setScore', 'h_setScore', enforce='TTEntry_setScore', min_props=5),
    Group('getScore', 'h_getScore', enforce='TTEntry_getScore', min_props=3),
    Group('isCutOff', 'h_isCutOff', enforce='TTEntry_isCutOff', replace=('TTEntry_getScore',), min_props=7),
    Group('getByte', 'h_getByte', enforce='TranspositionTable_getByte', min_props=3),
    Group('putByte', 'h_putByte', enforce='TranspositionTable_putByte', min_props=3),
    Group('byteSize', 'h_byteSize', enforce='TranspositionTable_byteSize', min_props=1),
    Group('resize', 'h_resize', enforce='TTStorage_resize', replace=('TranspositionTable_byteSize',), min_props=2),
    Group('updateTB', 'h_updateTB', enforce='TranspositionTable_updateTB', replace=('TranspositionTable_setUsedSize', 'ghost_tbgen_probeDTM', 'ghost_tbgen_generate', 'BitBoard_bitCount'), min_props=10),
    Group('clear_head', 'h_clear_head', enforce='TranspositionTable_clear_head', replace=('TranspositionTable_setUsedSize',), min_props=5),
    Group('lemma_torn', 'h_lemma_torn', replace=('TTEntry_load', 'TTEntry_store'), min_props=5),
    Group('lemma_fields', 'h_lemma_fields', min_props=10),
    Group('lemma_tbregion', 'h_lemma_tbregion', replace=('TranspositionTable_byteSize',), min_props=3),
]
PROPERTIES = {
    'C08': ['setUsedSize', 'getIndex', 'store', 'load', 'probe', 'insert', 'setBusy', 'setScore', 'getScore', 'getByte', 'putByte',
            'byteSize', 'resize', 'lemma_torn', 'lemma_fields', 'lemma_tbregion', 'updateTB', 'clear_head'],
    'C12': ['updateTB', 'clear_head', 'lemma_tbregion', 'setUsedSize'],
    'C04': ['setScore', 'getScore', 'isCutOff', 'setBusy'],
}

MUTANTS = [
    dict(name='insert_setKey_before_move_guard', file='lib/texellib/transpositionTable.cpp', pattern=r'        if \(\(ent.getKey\(\) != key\) \|\| \(sm.from\(\) != sm.to\(\)\)\)\n            ent.setMove\(sm\);\n        ent.setKey\(key\);', repl='        ent.setKey(key);\n        if ((ent.getKey() != key) || (sm.from() != sm.to()))\n            ent.setMove(sm);', groups=['insert']),
    dict(name='setBusy_score_at_ply0', file='lib/texellib/transpositionTable.cpp', pattern=r'sm.setScore\(ent.getScore\(ply\)\);', repl='sm.setScore(ent.getScore(0));', groups=['setBusy']),
    dict(name='getIndex_shift15', file='lib/texellib/transpositionTable.hpp', pattern=r'    r >>= 16;', repl='    r >>= 15;', groups=['getIndex']),
    dict(name='getIndex_mask_low_bits', file='lib/texellib/transpositionTable.cpp', pattern=r'usedSizeMask = \(\(1ULL << usedSizeShift\) - 1\) & ~3ULL;', repl='usedSizeMask = ((1ULL << usedSizeShift) - 1) & ~1ULL;', groups=['setUsedSize']),
    dict(name='setUsedSize_512', file='lib/texellib/transpositionTable.cpp', pattern=r'while \(topBits >= 256\) \{', repl='while (topBits >= 512) {', groups=['setUsedSize']),
    dict(name='probe_five_slots', file='lib/texellib/transpositionTable.hpp', pattern=r'for \(int i = 0; i < 4; i\+\+\) \{\n        ent.load\(table\[idx0 \+ i\]\);', repl='for (int i = 0; i <= 4; i++) {\n        ent.load(table[idx0 + i]);', groups=['probe']),
    dict(name='store_no_xor', file='lib/texellib/transpositionTable.hpp', pattern=r'ent.key.store\(key \^ data, std::memory_order_relaxed\);', repl='ent.key.store(key, std::memory_order_relaxed);', groups=['store', 'lemma_torn']),
    dict(name='setScore_ply_sign', file='lib/texellib/transpositionTable.hpp', pattern=r'    if \(SearchConst::isWinScore\(score\)\)\n        score \+= ply;', repl='    if (SearchConst::isWinScore(score))\n        score -= ply;', groups=['setScore']),
    dict(name='getScore_no_lose_shift', file='lib/texellib/transpositionTable.hpp', pattern=r'    else if \(SearchConst::isLoseScore\(sc\)\)\n        sc \+= ply;', repl='    else if (SearchConst::isLoseScore(sc))\n        sc += 0;', groups=['getScore', 'setScore']),
    dict(name='depth_field_8bits', file='lib/texellib/transpositionTable.hpp', pattern=r'return getBits\(32, 9\);', repl='return getBits(32, 8);', groups=['lemma_fields']),
    dict(name='type_field_overlap', file='lib/texellib/transpositionTable.hpp', pattern=r'setBits\(46, 2, t\);', repl='setBits(45, 2, t);', groups=['lemma_fields']),
    dict(name='insert_wrong_slot', file='lib/texellib/transpositionTable.cpp', pattern=r'ent.store\(table\[idx\]\);', repl='ent.store(table[idx0]); ent.store(table[idx]);', groups=['insert']),
    dict(name='putByte_wrong_half', file='lib/texellib/transpositionTable.hpp', pattern=r'    if \(offs < 8\) \{\n        U64 data = table\[ent\].key', repl='    if (offs <= 8) {\n        U64 data = table[ent].key', groups=['putByte']),
    dict(name='resize_idx0', file='lib/texellib/transpositionTable.hpp', pattern=r'idx0 = table.byteSize\(\) - size;', repl='idx0 = table.byteSize() - size - 16;', groups=['resize', 'lemma_tbregion']),
    dict(name='updateTB_keeps_partial', file='lib/texellib/transpositionTable.cpp', pattern=r'        tbGen.reset\(\); // Don.t leave a partially computed TB installed\n        setUsedSize\(tableSize\);\n', repl='', groups=['updateTB']),
    dict(name='updateTB_used_minus', file='lib/texellib/transpositionTable.cpp', pattern=r'    setUsedSize\(tableSize - tbSize / sizeof\(TTEntryStorage\)\);', repl='    setUsedSize(usedSize - tbSize / sizeof(TTEntryStorage));', groups=['updateTB']),
    dict(name='isCutOff_ignores_depth', file='lib/texellib/transpositionTable.hpp', pattern=r'    if \(eDepth >= depth\) \{', repl='    if (eDepth >= depth - 1) {', groups=['isCutOff']),
    dict(name='isCutOff_mate_bound_type', file='lib/texellib/transpositionTable.hpp', pattern=r'\(eType == TType::T_EXACT \|\| eType == TType::T_GE\)\)\n        return true;', repl='(eType == TType::T_EXACT || eType == TType::T_LE))\n        return true;', groups=['isCutOff']),
]
