"""Assembly of one verification unit: prelude, structs read from headers, constants, tables, pulled
functions with spliced contracts.  Data comes from units/<unit>/unit.py."""
import re, os, json, hashlib
from cxx2c import (Translator, ClassInfo, Source, ExtractError, find_fields, find_const,
                   find_initializer, find_function, find_fragment, tokenize, untok, split_top,
                   match_close, FuncText, Func, Param, resolve_preproc)

PRELUDE = r'''
#include <stdint.h>
#include <stddef.h>
typedef uint64_t U64; typedef int64_t S64; typedef uint32_t U32; typedef int32_t S32;
typedef uint16_t U16; typedef int16_t S16; typedef uint8_t U8; typedef int8_t S8;
typedef _Bool bool;
#define true 1
#define false 0
#define nullptr 0
typedef int Square;            /* translation axiom: class Square wraps one int (pinned, see square_pin) */
#define Square_xy(x, y) ((y) * 8 + (x))
#define STD_MIN(a, b) ((a) < (b) ? (a) : (b))
#define STD_MAX(a, b) ((a) > (b) ? (a) : (b))
#define STD_ABS(a) ((a) < 0 ? -(a) : (a))
#define CLAMP(v, lo, hi) STD_MIN(STD_MAX(v, lo), hi)
#define assert(e) __CPROVER_assert(e, "repo assert")
'''


def norm(s):
    return ' '.join(s.split())


# Text of square.hpp that the Square==int translation axiom relies on.  Compared (whitespace
# normalised, comments stripped) on every run; mismatch => exit 2 "translation axiom changed".
SQUARE_PINS = [
    ('Square::Square', 0, [('sq', '-1')], ''),
    ('Square::Square', 2, [('sq', 'y * 8 + x')], ''),
    ('Square::Square', 1, None, None),   # two one-arg constructors: (SquareName s) and (int sq)
    ('Square::asInt', 0, None, 'return sq;'),
    ('Square::isValid', 0, None, 'return sq != -1;'),
    ('Square::operator==', 1, None, None),
    ('Square::operator!=', 1, None, None),
    ('Square::operator+=', 1, None, 'sq += d; return *this;'),
    ('operator+', 2, None, 'return Square(a.asInt() + b);'),
    ('operator-', 2, None, 'return Square(a.asInt() - b);'),
]


def check_square_pin():
    src = Source.get('lib/texellib/square.hpp')
    t = src.text
    fields = find_fields(src, 'Square')
    if [(f[0], f[1]) for f in fields] != [('int', 'sq')]:
        raise ExtractError('translation axiom changed: Square data members are %r' % (fields,))
    for qual, npar, init, body in SQUARE_PINS:
        if qual == 'Square::Square' and npar == 1:
            f0 = find_function(src, qual, nparams=1, index=0)
            f1 = find_function(src, qual, nparams=1, index=1)
            got = sorted([(norm(f0.params), [(a, norm(b)) for a, b in f0.init]), (norm(f1.params), [(a, norm(b)) for a, b in f1.init])])
            exp = sorted([('SquareName s', [('sq', 'static_cast<int>(s)')]), ('int sq', [('sq', 'sq')])])
            if got != exp:
                raise ExtractError('translation axiom changed: Square one-arg constructors: %r' % (got,))
            continue
        if qual in ('Square::operator==', 'Square::operator!='):
            op = qual[-2:]
            f0 = find_function(src, qual, nparams=1, index=0)
            f1 = find_function(src, qual, nparams=1, index=1)
            got = sorted([norm(f0.body), norm(f1.body)])
            exp = sorted(['return sq %s other.sq;' % op, 'return sq %s s;' % op])
            if got != exp:
                raise ExtractError('translation axiom changed: %s: %r' % (qual, got))
            continue
        f = find_function(src, qual, nparams=npar)
        if init is not None and [(a, norm(b)) for a, b in f.init] != init:
            raise ExtractError('translation axiom changed: %s init %r' % (qual, f.init))
        if body is not None and norm(f.body) != norm(body):
            raise ExtractError('translation axiom changed: %s body %r' % (qual, norm(f.body)))
    # AllSquares and SqTbl, whole class text
    import hashlib as _h
    for cls, want in (('AllSquares', None), ('SqTbl', None)):
        m = re.search(r'class\s+' + cls + r'\b[^{]*\{', t)
        e = match_close(t, m.end() - 1, '{', '}')
        txt = norm(t[m.start():e + 1])
        PIN = {
            'AllSquares': 'class AllSquares { public: AllSquares() : sq(0) {} AllSquares begin() const { return AllSquares(); } AllSquares end() const { return AllSquares(64); } Square operator*() const { return Square(sq); } AllSquares& operator++() { ++sq; return *this; } bool operator!=(const AllSquares& o) const { return sq != o.sq; } private: explicit AllSquares(int sq) : sq(sq) {} int sq; }',
            'SqTbl': 'class SqTbl { public: template<typename... Ts> SqTbl(Ts&&... ts) : tbl{{std::forward<Ts>(ts)...}} {} const T& operator[](Square sq) const { return tbl[sq.asInt()]; } T& operator[](Square sq) { return tbl[sq.asInt()]; } private: std::array<T, 64> tbl; }',
        }[cls]
        if txt != PIN:
            raise ExtractError('translation axiom changed: class %s text differs: %s' % (cls, txt))
    # shift operator  U64 << Square
    bb = Source.get('lib/texellib/bitBoard.hpp')
    f = find_function(bb, 'operator<<', nparams=2)
    if norm(f.body) != 'return b << s.asInt();' or norm(f.params) != 'U64 b, Square s':
        raise ExtractError('translation axiom changed: operator<<(U64,Square)')
    return ['Square data member {int sq}', '4 constructors', 'asInt/isValid', '==,!= (Square, SquareName)', '+=,+,-',
            'class AllSquares', 'class SqTbl', 'operator<<(U64,Square)']


def square_class(tr):
    ci = ClassInfo('Square', 'Square', by_value=True, fields={'sq': ('int', '')})

    def ctor(args):
        if len(args) == 0:
            return '(-1)'
        if len(args) == 1:
            return '(%s)' % args[0]
        if len(args) == 2:
            return 'Square_xy(%s, %s)' % (args[0], args[1])
        raise ExtractError('Square constructor with %d args' % len(args))
    ci.ctor = ctor
    ci.default_init = '(-1)'
    tr.add_class(ci)
    # pinned methods as builtin
    f = tr.declare('SQ_ASINT', 'Square', 'asInt', 'int', [], is_static=False)
    f = tr.declare('SQ_ISVALID', 'Square', 'isValid', 'bool', [], is_static=False)
    return ci


class Unit:
    def __init__(self, name, defines=None):
        self.name = name
        self.tr = Translator(defines or {})
        self.tr._pt_idents = set()
        self.tr._pt_calls = set()
        self.chunks = []        # (kind, text)
        self.funcs = []         # pulled Func in emission order
        self.files = {}
        self.notes = []
        self.pins = check_square_pin()
        square_class(self.tr)
        self.chunks.append(('prelude', PRELUDE + '#define SQ_ASINT(s) (s)\n#define SQ_ISVALID(s) ((s) != -1)\n'))
        self.enum_squares()

    def src(self, relpath):
        s = Source.get(relpath)
        self.files[relpath] = s.sha256
        return s

    def enum_squares(self):
        s = self.src('lib/texellib/square.hpp')
        m = re.search(r'enum\s+SquareName\s*\{([^}]*)\}', s.text)
        names = [x.strip() for x in m.group(1).split(',') if x.strip()]
        exp = [c + r for r in '12345678' for c in 'ABCDEFGH']
        if names != exp:
            raise ExtractError('translation axiom changed: enum SquareName')
        self.chunks.append(('enum', 'enum SquareName { ' + ', '.join(names) + ' };\n'))
        for nm in names:
            self.tr.consts[nm] = nm
        self.tr.typemap['SquareName'] = 'int'

    # ----- constants -----
    def const(self, relpath, name, scope=None, cname=None, ctype=None, key=None):
        s = self.src(relpath)
        val = find_const(s, name, scope)
        cname = cname or ((scope + '_' if scope else '') + name)
        key = key or ((scope + '::' if scope else '') + name)
        # value may reference other constants of the same scope
        vt = self.tr_const_expr(val, scope)
        self.chunks.append(('const', '#define %s (%s%s)\n' % (cname, '(%s)' % ctype if ctype else '', vt)))
        self.tr.consts[key] = cname
        if scope:
            self.tr.consts.setdefault(name + '@' + scope, cname)
        return cname

    def tr_const_expr(self, val, scope):
        toks = tokenize(val)
        out = []
        i = 0
        while i < len(toks):
            k, t = toks[i]
            if k == 'id':
                names = [t]
                j = i + 1
                while j + 1 < len(toks) and toks[j][1] == '::' and toks[j + 1][0] == 'id':
                    names.append(toks[j + 1][1]); j += 2
                q = '::'.join(names)
                cands = [q] + ([scope + '::' + q] if scope else [])
                for c in cands:
                    if c in self.tr.consts:
                        out.append(self.tr.consts[c]); break
                else:
                    if q in self.tr.typemap:
                        out.append(self.tr.typemap[q])
                    elif q in ('sizeof', 'int', 'unsigned', 'long', 'U64'):
                        out.append(q)
                    else:
                        raise ExtractError('constant expression %r references unknown %r' % (val, q))
                i = j
            else:
                out.append(t); i += 1
        return ''.join(out)

    def consts(self, relpath, scope, names, prefix=None, ctype=None):
        for n in names:
            self.const(relpath, n, scope, cname=(prefix if prefix is not None else scope + '_') + n, ctype=ctype)

    def enum(self, relpath, name, scope=None, prefix=None):
        """enum / enum class with auto-numbered enumerators."""
        s = self.src(relpath)
        ms = list(re.finditer(r'\benum\s+(?:class\s+)?' + re.escape(name) + r'\s*(?::\s*\w+\s*)?\{([^}]*)\}', s.text))
        if len(ms) != 1:
            raise ExtractError('enum %s found %d times in %s' % (name, len(ms), relpath))
        val = -1
        out = []
        for item in ms[0].group(1).split(','):
            item = item.strip()
            if not item:
                continue
            if '=' in item:
                nm, v = [x.strip() for x in item.split('=')]
                val = int(v, 0)
            else:
                nm = item
                val += 1
            cn = (prefix if prefix is not None else name + '_') + nm
            self.chunks.append(('const', '#define %s (%d)\n' % (cn, val)))
            self.tr.consts[name + '::' + nm] = cn
            if scope:
                self.tr.consts[scope + '::' + name + '::' + nm] = cn
                self.tr.consts[scope + '::' + nm] = cn
            out.append((nm, val))
        self.tr.typemap[name] = 'int'
        if scope:
            self.tr.typemap[scope + '::' + name] = 'int'
        return out

    def in_class_scope(self, cls, names):
        """Make `name` resolve to `Class::name` constants inside methods of cls (unqualified use)."""
        for n in names:
            self.tr.consts.setdefault(n, self.tr.consts[cls + '::' + n])

    # ----- classes -----
    def struct(self, relpath, cls, cname=None, expect=None, typeover=None, default_init=None, bases=(), extra=None, only=None):
        """Emit a C struct whose members are read from the class definition in the header."""
        s = self.src(relpath)
        fields = []
        for b in bases:
            fields += find_fields(s, b)
        fields += find_fields(s, cls)
        cname = cname or cls
        ci = ClassInfo(cls, cname)
        ci.src = s
        lines = []
        seen = []
        if only is not None:
            have = [f[1] for f in fields]
            for o in only:
                if o not in have:
                    raise ExtractError('class %s has no member %s any more' % (cls, o))
            fields = [f for f in fields if f[1] in only]
        for (ty, nm, dims, init) in fields:
            ty0 = ty
            if typeover and nm in typeover:
                if typeover[nm] is None:
                    seen.append((norm(ty0), nm, norm(dims)))
                    continue
                cty, bty, cdims = typeover[nm]
            elif dims.startswith(':'):
                # bit-field member: same declaration in C; the layout pin (expect) compares type, name and order only
                cty, bty, cdims = self.field_type(ty, '')
                cdims = ' ' + dims
                lines.append('    %s %s%s;' % (cty, nm, cdims))
                ci.fields[nm] = (bty, '')
                seen.append((norm(ty0), nm, ''))
                continue
            else:
                cty, bty, cdims = self.field_type(ty, dims)
            lines.append('    %s %s%s;' % (cty, nm, cdims))
            ci.fields[nm] = (bty + cdims if cdims else bty, cdims)
            seen.append((norm(ty0), nm, norm(dims)))
        if expect is not None and seen != expect:
            raise ExtractError('class %s members changed:\n got %r\n exp %r' % (cls, seen, expect))
        if extra:
            for l in extra:
                lines.append('    ' + l)
        self.chunks.append(('struct', 'struct %s {\n%s\n};\n' % (cname, '\n'.join(lines))))
        ci.default_init = default_init
        ci.member_list = seen
        self.tr.add_class(ci)
        return ci

    def field_type(self, ty, dims):
        ty = norm(ty)
        m = re.match(r'SqTbl<\s*(.+?)\s*>$', ty)
        if m:
            cty, bty, d = self.field_type(m.group(1), '')
            return cty, bty, '[64]' + d + self.dims(dims)
        m = re.match(r'std::atomic<\s*(\w+)\s*>$', ty)
        if m:
            return self.tr.ctype(m.group(1)), 'atomic<%s>' % m.group(1), self.dims(dims)
        m = re.match(r'RelaxedShared<\s*(\w+)\s*>$', ty)
        if m:
            return self.tr.ctype(m.group(1)), 'RelaxedShared<%s>' % m.group(1), self.dims(dims)
        ptr = ''
        while ty.endswith('*'):
            ptr += '*'
            ty = ty[:-1].strip()
        cty = self.tr.ctype(ty)
        return cty + ptr, self.tr.base_type(ty) + ptr, self.dims(dims)

    def dims(self, dims):
        if not dims:
            return ''
        out = ''
        for m in re.finditer(r'\[([^\]]*)\]', dims):
            out += '[' + self.tr_const_expr(m.group(1), None) + ']'
        return out

    def static_member(self, cls, name, cname, bty):
        self.tr.classes[cls].statics[name] = (cname, bty)

    # ----- tables -----
    def table(self, relpath, name_re, cdecl, wrap_sqtbl=False):
        s = self.src(relpath)
        init = find_initializer(s, name_re)
        init = re.sub(r'\s+', ' ', init)
        self.chunks.append(('table', 'static const %s = %s;\n' % (cdecl, init)))

    def param(self, name, relpath='lib/texellib/parameters.hpp'):
        """Tunable parameter DECLARE_PARAM(name, default, min, max, uci): becomes a symbolic int input
        with its declared range (PARAM_MIN_/PARAM_MAX_/PARAM_DEF_ macros)."""
        s = self.src(relpath)
        ms = list(re.finditer(r'DECLARE_PARAM\(\s*' + re.escape(name) + r'\s*,\s*(-?\d+)\s*,\s*(-?\d+)\s*,\s*(-?\d+)\s*,', s.text))
        if len(ms) != 1:
            raise ExtractError('DECLARE_PARAM(%s) found %d times' % (name, len(ms)))
        d, lo, hi = ms[0].groups()
        self.chunks.append(('param', 'int %s; /* tunable parameter, symbolic */\n#define PARAM_DEF_%s (%s)\n#define PARAM_MIN_%s (%s)\n#define PARAM_MAX_%s (%s)\n' % (name, name, d, name, lo, name, hi)))
        self.tr._pt_idents.add(name)
        return int(d), int(lo), int(hi)

    def passthrough(self, *names):
        for n in names:
            self.tr._pt_idents.add(n)
            self.tr._pt_calls.add(n)

    def uf_table(self, cname, ctype, dims, what, zero_row0=False):
        """A table whose contents do not matter for the proofs (Zobrist keys, tunable values): modelled as an
        uninterpreted function of its indices; every read in extracted code carries a bounds obligation."""
        args = ', '.join('int' for _ in dims)
        ps = ['i%d' % k for k in range(len(dims))]
        bounds = ' && '.join('(%s) >= 0 && (%s) < %d' % (a, a, d) for a, d in zip(ps, dims))
        self.chunks.append(('uf', '%s __CPROVER_uninterpreted_%s(%s);  /* %s: arbitrary table */\n'
                            '#define UF_%s(%s) (__CPROVER_assert(%s, "bounds: index of %s"), __CPROVER_uninterpreted_%s(%s))\n'
                            '#define %s_AT(%s) __CPROVER_uninterpreted_%s(%s)   /* for spec text */\n'
                            % (ctype, cname, args, what, cname, ', '.join(ps), bounds, cname, cname, ', '.join('(%s)' % a for a in ps),
                               cname, ', '.join(ps), cname, ', '.join('(%s)' % a for a in ps))))
        if zero_row0:
            # pinned fact about the real table: row 0 is all zero (checked by the unit against the initialiser)
            self.chunks.append(('uf', '#undef UF_%s\n#undef %s_AT\n'
                '#define UF_%s(i0, i1) (__CPROVER_assert((i0) >= 0 && (i0) < %d && (i1) >= 0 && (i1) < %d, "bounds: index of %s"), ((i0) == 0 ? (%s)0 : __CPROVER_uninterpreted_%s((i0), (i1))))\n'
                '#define %s_AT(i0, i1) ((i0) == 0 ? (%s)0 : __CPROVER_uninterpreted_%s((i0), (i1)))\n'
                % (cname, cname, cname, dims[0], dims[1], cname, ctype, cname, cname, ctype, cname)))
        self.tr.uf_tables[cname] = len(dims)
        self.notes.append('table %s modelled as uninterpreted function (%s)' % (cname, what))

    def stub(self, cname, proto):
        """External function with an *assumed* contract (listed in the evidence): prototype only."""
        if not hasattr(self, 'stubs'):
            self.stubs = []
        self.stubs.append((cname, proto))
        self.passthrough(cname)

    def raw(self, text, kind='raw'):
        self.chunks.append((kind, text))

    # ----- functions -----
    def pull(self, relpath, qual, **kw):
        self.src(relpath)
        f = self.tr.pull(relpath, qual, **kw)
        f.relpath = relpath
        self.funcs.append(f)
        return f

    def pull_w_b(self, relpath, qual, tparam='wtm', **kw):
        a = self.pull(relpath, qual, tsubst={tparam: 'true'}, suffix='_w', template=True, **kw)
        b = self.pull(relpath, qual, tsubst={tparam: 'false'}, suffix='_b', template=True, **kw)
        return a, b

    def fragment(self, relpath, cname, start_re, end_re, params, ret='void', cls=None, locals_=None,
                 include_end=False, rules=(), epilogue='', prologue='', is_static=True, using_ns=(), tsubst=None, within=None, within_kw=None, start_nth=None, end_first=False):
        """Pull the statements between two anchors as the body of a generated function.
        params: list of (C++ type, name, is_ref)."""
        s = self.src(relpath)
        if within:
            # anchors are searched inside the body of the named function only (each must match exactly once there)
            outer = find_function(s, within, **(within_kw or {}))
            ms = list(re.finditer(start_re, outer.body))
            if start_nth is not None:
                # the anchor is expected to occur exactly start_nth[1] times; the start_nth[0]-th occurrence is taken
                if len(ms) != start_nth[1]:
                    raise ExtractError('fragment start anchor %r matches %d times inside %s, expected %d' % (start_re, len(ms), within, start_nth[1]))
                ms = [ms[start_nth[0]]]
            if len(ms) != 1:
                raise ExtractError('fragment start anchor %r matches %d times inside %s' % (start_re, len(ms), within))
            rest = outer.body[ms[0].start():]
            if end_re is None:
                frag = rest
            else:
                me = list(re.finditer(end_re, rest))
                if end_first and me:
                    me = me[:1]
                if len(me) != 1:
                    raise ExtractError('fragment end anchor %r matches %d times inside %s after the start' % (end_re, len(me), within))
                frag = rest[:me[0].end() if include_end else me[0].start()]
            ft = FuncText()
            ft.body = frag
            ft.line0 = outer.line0 + outer.body[:ms[0].start()].count('\n')
            ft.line1 = ft.line0 + frag.count('\n')
            ft.src = s
        else:
            ft = find_fragment(s, start_re, end_re, include_end)
        ft.params = ''
        ft.body = prologue + ft.body + epilogue
        ps = [Param(t, n, r) for (t, n, r) in params]
        f = Func(cname, cls, cname, ret, ps, is_static)
        f.ft = ft
        f.qual = cname
        f.is_ctor = False
        f.tsubst = dict(tsubst or {})
        f.rules = list(rules)
        f.extra_locals = locals_ or {}
        f.relpath = relpath
        f.fragment = True
        f.using_ns = list(using_ns)
        self.funcs.append(f)
        return f

    # ----- emission -----
    def emit(self, contracts, only=None, extra_c=''):
        """Translate all pulled functions and produce the C text.  contracts: cname -> dict."""
        out = []
        for kind, text in self.chunks:
            out.append(text)
        protos, defs = [], []
        self.loops = {}
        for f in self.funcs:
            self.tr.translate(f)
            c = contracts.get(f.cname, {})
            ctext = self.contract_text(c)
            body = f.body_c
            body = self.splice_loops(f, body, c.get('loops', {}))
            for (anchor, gtext) in c.get('ghost_at', []):
                # ghost statement spliced after a unique anchor inside the body (must match exactly once)
                self.check_ghost(f, gtext)
                ms = list(re.finditer(anchor, body))
                if len(ms) != 1:
                    raise ExtractError('%s: ghost anchor %r matches %d times' % (f.cname, anchor, len(ms)))
                body = body[:ms[0].end()] + ' ' + gtext + ' ' + body[ms[0].end():]
            if c.get('ghost_entry'):
                self.check_ghost(f, c['ghost_entry'])
                body = '\n' + c['ghost_entry'] + '\n' + body
            if c.get('ghost_exit'):
                self.check_ghost(f, c['ghost_exit'])
                body = body + '\n' + c['ghost_exit'] + '\n'
            protos.append(f.proto + ctext + ';')
            f.text = '/* %s  %s:%d-%d */\n%s\n{%s}\n' % (f.qual, f.relpath, f.ft.line0, f.ft.line1, f.proto, body)
            defs.append(f.text)
        out.append('\n/* ---- spec (units/%s) ---- */\n' % self.name + extra_c)
        for (cn, proto) in getattr(self, 'stubs', []):
            if cn not in contracts:
                raise ExtractError('stub %s has no contract' % cn)
            protos.append('/* assumed contract (stub) */ ' + proto + self.contract_text(contracts[cn]) + ';')
        out.append('\n/* ---- prototypes ---- */\n' + '\n'.join(protos) + '\n')
        out.append('\n/* ---- extracted functions ---- */\n' + '\n'.join(defs))
        return '\n'.join(out)

    def check_ghost(self, f, text):
        # ghost statements may only assign identifiers starting with ghost_
        for m in re.finditer(r'([A-Za-z_][\w\.\->\[\]]*)\s*(?:[-+*/|&^]|<<|>>)?=(?!=)', text):
            lhs = m.group(1)
            if not lhs.startswith('ghost_'):
                raise ExtractError('%s: ghost statement assigns non-ghost %r' % (f.cname, lhs))

    def contract_text(self, c):
        t = ''
        for r in c.get('requires', []):
            t += '\n  __CPROVER_requires(%s)' % r
        for e in c.get('ensures', []):
            t += '\n  __CPROVER_ensures(%s)' % e
        if 'assigns' in c:
            a = c['assigns']
            if isinstance(a, str):
                a = [a]
            if not a:
                t += '\n  __CPROVER_assigns()'
            for x in a:
                t += '\n  __CPROVER_assigns(%s)' % x
        return t

    def splice_loops(self, f, body, loops):
        """Insert loop contracts after the header of the k-th loop (source order)."""
        toks = tokenize(body)
        # find loop headers
        heads = []
        i = 0
        n = len(toks)
        while i < n:
            if toks[i][0] == 'id' and toks[i][1] in ('while', 'for'):
                j = i + 1
                while toks[j][0] == 'ws':
                    j += 1
                if toks[j][1] != '(':
                    raise ExtractError('%s: loop keyword without (' % f.cname)
                d = 0
                k = j
                while True:
                    if toks[k][1] == '(':
                        d += 1
                    elif toks[k][1] == ')':
                        d -= 1
                        if d == 0:
                            break
                    k += 1
                # a `while` that closes a do-while is followed by ';'
                k2 = k + 1
                while k2 < n and toks[k2][0] == 'ws':
                    k2 += 1
                if toks[i][1] == 'while' and k2 < n and toks[k2][1] == ';' and self._is_do_tail(toks, i):
                    i = k + 1
                    continue
                heads.append((i, k))
            i += 1
        self.loops[f.cname] = len(heads)
        for o in loops:
            if o >= len(heads):
                raise ExtractError('%s: loop contract for loop #%d but function has %d loops' % (f.cname, o, len(heads)))
        out = []
        last = 0
        for o, (i0, k) in enumerate(heads):
            if i0 < last:
                continue   # loop nested inside a body that was already consumed by an L-cut
            last_start = last
            out.append(untok(toks[last:k + 1]))
            last = k + 1
            if o in loops and loops[o].get('mode') == 'cut':
                # L-cut (DESIGN 2.2): classical loop-cut transformation of the extracted text.
                #   assert I (base); havoc frame; assume I; if (guard) { body; assert I (step); assume false }
                # code after the loop continues with I && !guard (or with the state at a `break`).
                lc = loops[o]
                if toks[i0][1] != 'while':
                    raise ExtractError('%s: L-cut supports while loops only (loop #%d)' % (f.cname, o))
                guard = untok(toks[i0 + 1:k + 1])
                # locate body statement: block or single statement
                b0 = k + 1
                while toks[b0][0] == 'ws':
                    b0 += 1
                if toks[b0][1] != '{':
                    raise ExtractError('%s: L-cut needs a braced loop body (loop #%d)' % (f.cname, o))
                d = 0
                b1 = b0
                while True:
                    if toks[b1][1] == '{':
                        d += 1
                    elif toks[b1][1] == '}':
                        d -= 1
                        if d == 0:
                            break
                    b1 += 1
                body_toks = toks[b0 + 1:b1]
                btxt = self._rewrite_jumps(f, body_toks, o)
                inv = ' && '.join('(%s)' % x for x in lc['invariant'])
                # replace the already emitted prefix+header by the prefix alone
                out[-1] = untok(toks[last_start:i0])
                t = ('\n    __CPROVER_assert(%s, "loop invariant base (loop %d of %s)");\n    %s\n    __CPROVER_assume(%s);\n'
                     '    if %s {\n%s\n    __cont_%d: ;\n    __CPROVER_assert(%s, "loop invariant step (loop %d of %s)");\n'
                     % (inv, o, f.cname, lc['havoc'], inv, guard, btxt, o, inv, o, f.cname))
                if 'decreases' in lc:
                    t = t.replace('    if %s {' % guard, '    if %s { long long ghost_dec_%d = (%s);' % (guard, o, lc['decreases']), 1)
                    t += '    __CPROVER_assert((%s) < ghost_dec_%d && ghost_dec_%d >= 0, "loop variant decreases (loop %d of %s)");\n' % (lc['decreases'], o, o, o, f.cname)
                t += '    __CPROVER_assume(0);\n    }\n    __brk_%d: ;\n' % o
                out.append(t)
                last = b1 + 1
                self.cut_loops = getattr(self, 'cut_loops', []) + ['%s.loop%d' % (f.cname, o)]
                continue
            if o in loops:
                lc = loops[o]
                t = ''
                if 'assigns' in lc:
                    t += '\n    __CPROVER_assigns(%s)' % lc['assigns']
                for inv in lc.get('invariant', []):
                    t += '\n    __CPROVER_loop_invariant(%s)' % inv
                if 'decreases' in lc:
                    t += '\n    __CPROVER_decreases(%s)' % lc['decreases']
                out.append(t + '\n')
        out.append(untok(toks[last:]))
        return ''.join(out)

    def _rewrite_jumps(self, f, body_toks, o):
        """continue -> goto __cont_o ; break -> goto __brk_o  (only those belonging to this loop:
        nested loops/switches keep theirs)."""
        out = []
        depth_stack = []   # stack of ('loop'|'switch', brace depth at which it closes)
        i, n = 0, len(body_toks)
        depth = 0
        pending = None
        while i < n:
            k, t = body_toks[i]
            if k == 'id' and t in ('while', 'for', 'do', 'switch'):
                pending = 'switch' if t == 'switch' else 'loop'
            if t == '{':
                depth += 1
                if pending:
                    depth_stack.append((pending, depth))
                    pending = None
            elif t == '}':
                if depth_stack and depth_stack[-1][1] == depth:
                    depth_stack.pop()
                depth -= 1
            elif t == ';' and pending:
                pending = None    # unbraced nested statement: not supported for jumps inside, but harmless
            if k == 'id' and t == 'continue' and not any(x[0] == 'loop' for x in depth_stack):
                out.append('goto __cont_%d' % o)
            elif k == 'id' and t == 'break' and not depth_stack:
                out.append('goto __brk_%d' % o)
            else:
                out.append(t)
            i += 1
        return ''.join(out)

    def _is_do_tail(self, toks, i):
        j = i - 1
        while j >= 0 and toks[j][0] == 'ws':
            j -= 1
        return j >= 0 and toks[j][1] == '}' and self._do_before(toks, j)

    def _do_before(self, toks, j):
        d = 0
        while j >= 0:
            if toks[j][1] == '}':
                d += 1
            elif toks[j][1] == '{':
                d -= 1
                if d == 0:
                    k = j - 1
                    while k >= 0 and toks[k][0] == 'ws':
                        k -= 1
                    return k >= 0 and toks[k][1] == 'do'
            j -= 1
        return False

    def manifest(self):
        return {
            'files': self.files,
            'functions': [{'cname': f.cname, 'qual': f.qual, 'file': f.relpath, 'lines': [f.ft.line0, f.ft.line1],
                           'sha256_body': f.sha, 'fragment': bool(getattr(f, 'fragment', False))} for f in self.funcs],
            'translation_pins': self.pins,
            'rules_log': self.tr.log,
            'atomic_rewrites': self.tr.rules_fired.get('atomic', 0),
            'stubs_with_assumed_contract': [c for c, _ in getattr(self, 'stubs', [])],
        }
