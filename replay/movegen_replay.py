"""native replay driver for unit movegen (C01): position and ghost move from the CBMC trace -> real Position / MoveGen of /repo.
The oracle is the spec text of the unit itself (SPEC of units/movegen, i.e. the generated C file up to the prototypes), compiled as C."""
import subprocess, os, tempfile, re, sys

WRAP = r'''
/* ---- oracle wrappers (replay only) ---- */
static struct Position OP; static struct Move OM;
void oracle_set(const int* sq, int wm, int cm, int ep) { for (int i = 0; i < 64; i++) OP.squares[i] = sq[i]; OP.whiteMove = wm != 0; OP.castleMask = cm; OP.epSquare = ep; }
static void om(int f, int t, int p) { OM.from_ = f; OM.to_ = t; OM.promoteTo_ = p; OM.score_ = 0; }
int oracle_pseudo_legal(int f, int t, int p) { om(f, t, p); return spec_pseudo_legal(&OP, &OM); }
int oracle_evasion_candidate(int f, int t, int p) { om(f, t, p); return spec_evasion_candidate(&OP, &OM); }
int oracle_capture_class(int f, int t, int p) { om(f, t, p); return spec_capture_class(&OP, &OM); }
int oracle_gives_check(int f, int t, int p) { om(f, t, p); return spec_gives_check(&OP, &OM); }
int oracle_leaves_king_safe(int f, int t, int p) { om(f, t, p); return spec_leaves_king_safe(&OP, &OM); }
int oracle_in_check(void) { return spec_in_check(&OP); }
int oracle_opponent_in_check(void) { return spec_in_check_b(OP.squares, !OP.whiteMove); }
'''


def kind_of(fn):
    fn = fn or ''
    for k in ('pseudoLegalMoves', 'checkEvasions', 'pseudoLegalCaptures', 'givesCheck', 'inCheck'):
        if fn.startswith('MoveGen_' + k):
            return k
    return None


def replay(doc, root):
    kind = kind_of(doc.get('function_under_contract'))
    if not kind:
        return {'reproduced': False, 'note': 'no native driver for this function'}
    vals = {}
    for k, v in doc.get('inputs', []):
        vals[k] = v           # last assignment wins
    # the position is the only dynamic object with a squares[] member
    sq = {}
    obj = None
    for k, v in vals.items():
        mm = re.match(r'(dynamic_object\$?\d*)\.squares\[(\d+)l?\]$', k)
        if mm:
            obj = mm.group(1)
            sq[int(mm.group(2))] = v
    if obj is None or len(sq) < 64:
        return {'reproduced': False, 'note': 'position not found in the trace (%d squares)' % len(sq)}

    def num(v, default=0):
        if v in ('TRUE', 'true'):
            return 1
        if v in ('FALSE', 'false'):
            return 0
        try:
            return int(str(v).rstrip('ul'))
        except ValueError:
            return default
    board = [num(sq[i]) for i in range(64)]
    wm = num(vals.get(obj + '.whiteMove', 0)); cm = num(vals.get(obj + '.castleMask', 0)); ep = num(vals.get(obj + '.epSquare', -1), -1)
    if kind in ('givesCheck',):
        mobj = None
        for k in vals:
            mm = re.match(r'(dynamic_object\$?\d*)\.from_$', k)
            if mm:
                mobj = mm.group(1)
        if mobj is None:
            return {'reproduced': False, 'note': 'move not found in the trace'}
        mv = [num(vals.get(mobj + '.from_')), num(vals.get(mobj + '.to_')), num(vals.get(mobj + '.promoteTo_'))]
    else:
        mv = [num(vals.get('ghost_m.from_', 0)), num(vals.get('ghost_m.to_', 0)), num(vals.get('ghost_m.promoteTo_', 0))]
    repo = os.environ.get('VERIF_REPO', '/repo')
    out = tempfile.mkdtemp(prefix='replay_', dir=os.environ.get('VERIF_TMP', '/var/tmp'))
    try:
        sys.path.insert(0, os.path.join(root, 'tools'))
        import runcheck
        m, U, cfile = runcheck.build_unit('movegen', out, save=False)
        text = open(cfile).read()
        cut = text.index('/* ---- prototypes ---- */')
        spec_c = os.path.join(out, 'spec_oracle.c')
        with open(spec_c, 'w') as f:
            f.write('#define __CPROVER_assert(c, m) ((void)0)\n' + text[:cut] + WRAP)
        exe = os.path.join(out, 'movegen_replay')
        L = repo + '/lib/texellib'
        subprocess.run(['cmake', '--build', repo + '/_build', '--target', 'texellib', '-j8'], capture_output=True)
        c1 = subprocess.run(['gcc', '-std=gnu11', '-O1', '-w', '-c', spec_c, '-o', os.path.join(out, 'spec_oracle.o')], capture_output=True, text=True)
        if c1.returncode != 0:
            return {'reproduced': False, 'note': 'spec oracle did not compile', 'stderr': c1.stderr[-1500:]}
        # every symbol of the spec object except the oracle entry points becomes local (the spec file defines globals such as kV that also exist in texellib)
        keep = ['oracle_set', 'oracle_pseudo_legal', 'oracle_evasion_candidate', 'oracle_capture_class', 'oracle_gives_check', 'oracle_leaves_king_safe', 'oracle_in_check', 'oracle_opponent_in_check']
        c2 = subprocess.run(['objcopy'] + sum([['-G', k] for k in keep], []) + [os.path.join(out, 'spec_oracle.o')], capture_output=True, text=True)
        if c2.returncode != 0:
            return {'reproduced': False, 'note': 'objcopy failed', 'stderr': c2.stderr[-500:]}
        cmd = ['g++', '-std=c++11', '-O1', '-fno-access-control', '-pthread'] + ['-I' + L + d for d in ('', '/util', '/hw', '/tb', '/nn', '/book', '/debug', '/tb/gtb', '/tb/syzygy')] + \
              [os.path.join(root, 'replay', 'movegen_replay.cpp'), os.path.join(out, 'spec_oracle.o'), repo + '/_build/lib/texellib/libtexellib.a', '-o', exe, '-lrt']
        c = subprocess.run(cmd, capture_output=True, text=True)
        if c.returncode != 0:
            return {'reproduced': False, 'note': 'native driver did not compile', 'stderr': c.stderr[-1500:]}
        args = [kind] + [str(x) for x in board] + [str(wm), str(cm), str(ep)] + [str(x) for x in mv]
        r = subprocess.run([exe] + args, capture_output=True, text=True, timeout=120)
        return {'reproduced': r.returncode == 1, 'kind': kind, 'board': board, 'whiteMove': wm, 'castleMask': cm, 'epSquare': ep, 'move': mv, 'stdout': r.stdout[-800:], 'rc': r.returncode}
    except Exception as e:
        return {'reproduced': False, 'note': 'replay driver error: %s' % e}
    finally:
        subprocess.run(['rm', '-rf', out])
