"""Unit csp (C20): BitSet<64,-16> (Domain), BitSet<192,0> (ConstrSet) and CspSolver."""
import sys, os, re
sys.path.insert(0, os.path.dirname(os.path.dirname(os.path.abspath(__file__))))
from unitlib import Unit, ClassInfo, norm
from cxx2c import ExtractError, find_fields, find_function
from prove import Group
import common

BS_H = 'lib/texelutillib/bitSet.hpp'
CS_H = 'lib/texelutillib/pg/cspsolver.hpp'
CS_C = 'lib/texelutillib/pg/cspsolver.cpp'

BS_METHODS = [('clear', 0), ('operator==', 1), ('operator!=', 1), ('setBit', 1), ('clearBit', 1), ('getBit', 1), ('empty', 0), ('setRange', 2),
              ('removeOdd', 0), ('removeEven', 0), ('removeSmaller', 1), ('removeLarger', 1), ('operator|=', 1), ('operator&=', 1),
              ('getMinBit', 0), ('getMaxBit', 0), ('bitCount', 0)]
OPNAMES = {'operator==': 'eq', 'operator!=': 'ne', 'operator|=': 'orAssign', 'operator&=': 'andAssign'}
# data bounds of the CspSolver proofs: the quantifier of C20 (1..10 variables, 0..25 constraints); loop iterations are unbounded
DATA_MAXV, DATA_MAXC = 10, 25
LOGRULE = (r'LOG\([^;]*\);', '', '0+')


def bitset(U, name, N, offs):
    nwords = N // 64
    U.raw('struct %s { U64 data[%d]; };   /* BitSet<%d,%d> */\n' % (name, nwords, N, offs))
    ci = ClassInfo(name); ci.fields = {'data': ('U64[%d]' % nwords, '[%d]' % nwords)}
    ci.default_init = '{{0}}'
    ci.copy_ok = True
    U.tr.add_class(ci)
    ts = {'N': str(N), 'offs': '(%d)' % offs, 'nWords': str(nwords), 'numBits': str(N), 'minAllowed': '(%d)' % offs}
    for m, n in BS_METHODS:
        U.pull(BS_H, 'BitSet::' + m, nparams=n, self_cls=name, cname='%s_%s' % (name, OPNAMES.get(m, m)), tsubst=ts, as_static=False, type_alias={'BitSet': name})
    U.tr.consts[name + '::numBits'] = str(N)
    U.tr.consts[name + '::minAllowed'] = '(%d)' % offs


def build():
    U = Unit('csp')
    src = U.src(BS_H)
    if [(norm(f[0]), f[1], norm(f[2])) for f in find_fields(src, 'BitSet')] != [('U64', 'data', '[nWords]')]:
        raise ExtractError('pin changed: data members of BitSet')
    if not re.search(r'constexpr static int nWords = \(N \+ 63\) / 64;', src.text):
        raise ExtractError('pin changed: BitSet::nWords')
    # copy constructor / operator= are element-wise copies == C struct assignment
    f = find_function(src, 'BitSet::operator=', nparams=1)
    if norm(f.body) != 'for (int i = 0; i < nWords; i++) data[i] = b.data[i]; return *this;':
        raise ExtractError('pin changed: BitSet::operator=')
    cs = U.src(CS_C)
    if not re.search(r'#else\s*#define LOG\(x\) do \{ \} while \(false\)\s*#endif', cs.text) or re.search(r'^\s*#define CSPDEBUG', cs.text, re.M):
        raise ExtractError('pin changed: LOG macro of cspsolver.cpp is no longer a no-op')
    common.bit_primitives(U)
    bitset(U, 'Domain', 64, -16)
    bitset(U, 'ConstrSet', 192, 0)
    U.tr.typemap['CspSolver::Domain'] = 'struct Domain'; U.tr.typemap['CspSolver::PrefVal'] = 'int'
    U.enum(CS_H, 'PrefVal', scope='CspSolver')
    U.enum(CS_H, 'Oper', scope='CspSolver', prefix='Oper_')
    U.tr.consts['LE'] = 'Oper_LE'; U.tr.consts['GE'] = 'Oper_GE'
    U.const(CS_H, 'minAllowedValue', 'CspSolver')
    U.struct(CS_H, 'Constraint', expect=[('const int', 'v1', ''), ('const int', 'v2', ''), ('const int', 'c', '')])
    MAXV, MAXC = DATA_MAXV, DATA_MAXC
    U.raw('#define CSP_MAXVARS %d\n#define CSP_MAXCONSTR %d\n'
          'struct VecDomain { struct Domain* data; int size; };\nstruct VecConstrSet { struct ConstrSet* data; int size; };\n'
          'struct VecConstraint { struct Constraint* data; int size; };\nstruct VecInt { int* data; int size; };\n' % (MAXV, MAXC))
    for cxx, c in (('std::vector<Domain>', 'struct VecDomain'), ('std::vector<ConstrSet>', 'struct VecConstrSet'),
                   ('std::vector<Constraint>', 'struct VecConstraint'), ('std::vector<PrefVal>', 'struct VecInt'), ('std::vector<int>', 'struct VecInt')):
        U.tr.typemap[cxx] = c
    U.struct(CS_H, 'CspSolver', only=['domain', 'prefVal', 'constr', 'varToConstr', 'nodes'],
             typeover={'domain': ('struct VecDomain', 'std::vector<Domain>', ''), 'prefVal': ('struct VecInt', 'std::vector<int>', ''),
                       'constr': ('struct VecConstraint', 'std::vector<Constraint>', ''), 'varToConstr': ('struct VecConstrSet', 'std::vector<ConstrSet>', '')})
    U.tr.consts['Domain::numBits'] = '64'
    P = U.pull
    for m in ('makeEven', 'makeOdd', 'addMinVal', 'addMaxVal'):
        P(CS_C, 'CspSolver::' + m, rules=[LOGRULE])
    P(CS_C, 'CspSolver::getBitVal')
    P(CS_C, 'CspSolver::makeArcConsistent', rules=[LOGRULE, (r'd != dOld', 'Domain_ne(&d, &dOld)', 1),
                                                     (r'constrMask \|= varToConstr\[v\];', 'ConstrSet_orAssign(&constrMask, &varToConstr[v]);', 1),
                                                     (r'ConstrSet constrMask;', 'ConstrSet constrMask = CONSTRSET_ZERO;', 1)],
      extra_locals={})
    P(CS_C, 'CspSolver::solveRecursive')
    # adding a constraint: constr.emplace_back is std::vector growth (outside the subset) and becomes the assumed stub ghost_constr_push
    U.raw('int ghost_pushes, ghost_push_v1, ghost_push_v2, ghost_push_c;   /* number of constraints appended and the last one */\n')
    U.stub('ghost_constr_push', 'void ghost_constr_push(int v1, int v2, int c)')
    U.tr.declare('ghost_constr_push', None, 'ghost_constr_push', 'void', [('int', 'v1', False), ('int', 'v2', False), ('int', 'c', False)])
    P(CS_C, 'CspSolver::addIneq', rules=[(r'std::swap\(v1, v2\);', '{ int ghost_t = v1; v1 = v2; v2 = ghost_t; }', 1),
                                          (r'constr\.emplace_back\(v1, v2, offs\);', 'ghost_constr_push(v1, v2, offs);', 1)])
    P(CS_H, 'CspSolver::addEq')
    # the consistency test of the backtracking search (inner loop of solveRecursive): from the copy of varToConstr[varNo] to the use of allValid
    fr = U.fragment(CS_C, 'CspSolver_solveRecursive_check', r'ConstrSet constrMask = varToConstr\[varNo\];', r'if \(allValid\) \{', within='CspSolver::solveRecursive',
               params=[('int', 'varNo', False), ('std::vector<int>', 'values', True)], ret='bool', cls='CspSolver', is_static=False, epilogue='\n    return allValid;\n')
    U.tr.classes['CspSolver'].methods.setdefault((fr.cname, len(fr.params), False), {})[''] = fr
    # the loop of solve() that attaches every constraint to its two variables
    U.fragment(CS_C, 'CspSolver_solve_attach', r'const int nConstr = constr\.size\(\);', r'if \(!makeArcConsistent\(\)\)', within='CspSolver::solve',
               params=[], cls='CspSolver', is_static=False)
    # the backtracking function with exactly that region (same anchors) replaced by a call of the fragment; its recursive call is a call of itself
    P(CS_C, 'CspSolver::solveRecursive', suffix='_outer',
      rules=[(r'(?s)ConstrSet constrMask = varToConstr\[varNo\];.*?(?=if \(allValid\) \{)', 'bool allValid = CspSolver_solveRecursive_check(varNo, values);\n        ', 1)])
    U.passthrough('CONSTRSET_ZERO', 'Domain_ne', 'ConstrSet_orAssign')
    U.raw('#define CONSTRSET_ZERO ((struct ConstrSet){{0, 0, 0}})\n')
    return U


def _gen_spec():
    MAXV, MAXC = DATA_MAXV, DATA_MAXC
    s = common.BIT_SPEC + r'''
int ghost_e;      /* arbitrary element (stands for "for all elements") */
int ghost_ci;     /* arbitrary constraint index */
int ghost_k;      /* arbitrary variable index */
/* set views */
#define DOM_HAS_W(w0, v) ((v) >= -16 && (v) < 48 && ((((U64)(w0)) >> ((v) + 16)) & 1) != 0)
#define CS_HAS_W(w0, w1, w2, i) ((i) >= 0 && (i) < 192 && (((((i) >> 6) == 0 ? (U64)(w0) : ((i) >> 6) == 1 ? (U64)(w1) : (U64)(w2)) >> ((i) & 63)) & 1) != 0)
#define DOM_HAS(d, v) DOM_HAS_W((d).data[0], v)
#define CS_HAS(c, i) CS_HAS_W((c).data[0], (c).data[1], (c).data[2], i)
#define DOM_EMPTY(d) ((d).data[0] == 0)
#define CS_EMPTY(c) ((c).data[0] == 0 && (c).data[1] == 0 && (c).data[2] == 0)
#define DOM_SUBSET(a, b) (((a).data[0] & ~(b).data[0]) == 0)
#define CS_SUBSET(a, b) ((((a).data[0] & ~(b).data[0]) | ((a).data[1] & ~(b).data[1]) | ((a).data[2] & ~(b).data[2])) == 0)
/* bits at or above n are zero */
#define CS_BELOW(c, n) ( ((n) >= 192) || ((n) >= 128 ? (((c).data[2] >> ((n) - 128)) == 0) : ((c).data[2] == 0 && ((n) >= 64 ? (((c).data[1] >> ((n) - 64)) == 0) : ((c).data[1] == 0 && ((n) <= 0 ? (c).data[0] == 0 : (((c).data[0] >> (n)) == 0)))))) )
int ghost_sol[CSP_MAXVARS];   /* an arbitrary assignment: when it is a solution it must survive pruning and be found */
'''
    s += '#define SOL_IN_DOMS(self) (' + ' && '.join('(%d >= (self)->domain.size || DOM_HAS((self)->domain.data[%d], ghost_sol[%d]))' % (k, k, k) for k in range(MAXV)) + ')\n'
    s += '#define SOL_SAT_ALL(self) (' + ' && '.join('(%d >= (self)->constr.size || ghost_sol[(self)->constr.data[%d].v1] <= ghost_sol[(self)->constr.data[%d].v2] + (self)->constr.data[%d].c)' % (c, c, c, c) for c in range(MAXC)) + ')\n'
    s += '#define CONSTR_WF(self) (' + ' && '.join('(%d >= (self)->constr.size || ((self)->constr.data[%d].v1 >= 0 && (self)->constr.data[%d].v1 < (self)->domain.size && (self)->constr.data[%d].v2 >= 0 && (self)->constr.data[%d].v2 < (self)->domain.size && (self)->constr.data[%d].c >= -64 && (self)->constr.data[%d].c <= 64))' % ((c,) * 7) for c in range(MAXC)) + ')\n'
    s += '#define V2C_BELOW(self) (' + ' && '.join('(%d >= (self)->domain.size || CS_BELOW((self)->varToConstr.data[%d], (self)->constr.size))' % (k, k) for k in range(MAXV)) + ')\n'
    s += '#define DOMS_SHRUNK(self) (' + ' && '.join('(%d >= (self)->domain.size || DOM_SUBSET((self)->domain.data[%d], __CPROVER_old((self)->domain.data[%d])))' % (k, k, k) for k in range(MAXV)) + ')\n'
    s += r'''
#define CSP_SHAPE(self) (__CPROVER_is_fresh(self, sizeof(*self)) \
    && 0 <= (self)->domain.size && (self)->domain.size <= CSP_MAXVARS && __CPROVER_is_fresh((self)->domain.data, CSP_MAXVARS * sizeof(struct Domain)) \
    && 0 <= (self)->constr.size && (self)->constr.size <= CSP_MAXCONSTR && __CPROVER_is_fresh((self)->constr.data, CSP_MAXCONSTR * sizeof(struct Constraint)) \
    && (self)->varToConstr.size == (self)->domain.size && __CPROVER_is_fresh((self)->varToConstr.data, CSP_MAXVARS * sizeof(struct ConstrSet)) \
    && (self)->prefVal.size == (self)->domain.size && __CPROVER_is_fresh((self)->prefVal.data, CSP_MAXVARS * sizeof(int)))
'''
    return s


SPEC = _gen_spec()


def _bitset_contracts(name, HAS, EMPTY, lo, hi, nwords):
    S = '__CPROVER_is_fresh(self, sizeof(*self))'
    B = '__CPROVER_is_fresh(b, sizeof(*b))'
    e = 'ghost_e'
    inr = lambda x: '%d <= %s && %s < %d' % (lo, x, x, hi)
    oldhas = '%s_W(%s, %s)' % (HAS, ', '.join('__CPROVER_old(self->data[%d])' % w for w in range(nwords)), e)
    C = {}
    C[name + '_clear'] = {'requires': [S], 'assigns': ['*self'], 'ensures': ['%s(*self)' % EMPTY]}
    C[name + '_setBit'] = {'requires': [S, inr('i')], 'assigns': ['*self'],
                           'ensures': ['%s(*self, i)' % HAS, '%s != i ==> %s(*self, %s) == %s' % (e, HAS, e, oldhas),
                                       # word level: exactly bit i is added
                                       ' && '.join('self->data[%d] == (__CPROVER_old(self->data[%d]) | ((((i) - (%d)) >> 6) == %d ? (1ULL << (((i) - (%d)) & 63)) : 0ULL))' % (w, w, lo, w, lo) for w in range(nwords))]}
    C[name + '_clearBit'] = {'requires': [S, inr('i')], 'assigns': ['*self'],
                             'ensures': ['!%s(*self, i)' % HAS, '%s != i ==> %s(*self, %s) == %s' % (e, HAS, e, oldhas),
                                         # word level: the result is a subset of the old set
                                         ' && '.join('(self->data[%d] & ~__CPROVER_old(self->data[%d])) == 0' % (w, w) for w in range(nwords))]}
    C[name + '_getBit'] = {'requires': [S, inr('i')], 'assigns': [], 'ensures': ['__CPROVER_return_value == %s(*self, i)' % HAS]}
    C[name + '_empty'] = {'requires': [S], 'assigns': [], 'ensures': ['__CPROVER_return_value == %s(*self)' % EMPTY, '__CPROVER_return_value ==> !%s(*self, %s)' % (HAS, e)]}
    C[name + '_setRange'] = {'requires': [S, '%d <= minVal && minVal < %d' % (lo, hi), '%d <= maxVal && maxVal < %d' % (lo - 1, hi)], 'assigns': ['*self'],
                             'ensures': ['(%s) ==> (%s(*self, %s) == (minVal <= %s && %s <= maxVal))' % (inr(e), HAS, e, e, e)]}
    C[name + '_removeOdd'] = {'requires': [S], 'assigns': ['*self'], 'ensures': ['%s(*self, %s) == (%s && (%s %% 2) == 0)' % (HAS, e, oldhas, e)]}
    C[name + '_removeEven'] = {'requires': [S], 'assigns': ['*self'], 'ensures': ['%s(*self, %s) == (%s && (%s %% 2) != 0)' % (HAS, e, oldhas, e)]}
    C[name + '_removeSmaller'] = {'requires': [S, '-1000000 <= minVal && minVal < %d' % hi], 'assigns': ['*self'],
                                  'ensures': ['%s(*self, %s) == (%s && %s >= minVal)' % (HAS, e, oldhas, e)]}
    C[name + '_removeLarger'] = {'requires': [S, '%d <= maxVal && maxVal <= 1000000' % (lo - 1)], 'assigns': ['*self'],
                                 'ensures': ['%s(*self, %s) == (%s && %s <= maxVal)' % (HAS, e, oldhas, e)]}
    C[name + '_orAssign'] = {'requires': [S, B], 'assigns': ['*self'], 'ensures': ['%s(*self, %s) == (%s || %s(*b, %s))' % (HAS, e, oldhas, HAS, e)]}
    C[name + '_andAssign'] = {'requires': [S, B], 'assigns': ['*self'], 'ensures': ['%s(*self, %s) == (%s && %s(*b, %s))' % (HAS, e, oldhas, HAS, e)]}
    weq = ' && '.join('self->data[%d] == b->data[%d]' % (w, w) for w in range(nwords))
    C[name + '_eq'] = {'requires': [S, B], 'assigns': [], 'ensures': ['__CPROVER_return_value == (%s)' % weq, '__CPROVER_return_value ==> (%s(*self, %s) == %s(*b, %s))' % (HAS, e, HAS, e)]}
    C[name + '_ne'] = {'requires': [S, B], 'assigns': [], 'ensures': ['__CPROVER_return_value == !(%s)' % weq]}
    C[name + '_getMinBit'] = {'requires': [S], 'assigns': [],
                              'ensures': ['%s(*self) ==> __CPROVER_return_value == -1' % EMPTY,
                                          '!%s(*self) ==> (%s(*self, __CPROVER_return_value) && (%s(*self, %s) ==> %s >= __CPROVER_return_value))' % (EMPTY, HAS, HAS, e, e)]}
    C[name + '_getMaxBit'] = {'requires': [S], 'assigns': [],
                              'ensures': ['%s(*self) ==> __CPROVER_return_value == -1' % EMPTY,
                                          '!%s(*self) ==> (%s(*self, __CPROVER_return_value) && (%s(*self, %s) ==> %s <= __CPROVER_return_value))' % (EMPTY, HAS, HAS, e, e)]}
    C[name + '_bitCount'] = {'requires': [S], 'assigns': [], 'ensures': ['__CPROVER_return_value == ' + ' + '.join('spec_popcount(self->data[%d])' % w for w in range(nwords))]}
    return C


CONTRACTS = dict(common.BIT_CONTRACTS)
CONTRACTS.update(_bitset_contracts('Domain', 'DOM_HAS', 'DOM_EMPTY', -16, 48, 1))
CONTRACTS.update(_bitset_contracts('ConstrSet', 'CS_HAS', 'CS_EMPTY', 0, 192, 3))

_BS_FUNCS = ['clear', 'setBit', 'clearBit', 'getBit', 'empty', 'setRange', 'removeOdd', 'removeEven', 'removeSmaller', 'removeLarger',
             'orAssign', 'andAssign', 'eq', 'ne', 'getMinBit', 'getMaxBit', 'bitCount']
_SIG = {'clear': '', 'setBit': 'int a', 'clearBit': 'int a', 'getBit': 'int a', 'empty': '', 'setRange': 'int a, int b', 'removeOdd': '', 'removeEven': '',
        'removeSmaller': 'int a', 'removeLarger': 'int a', 'orAssign': 'struct %s* o', 'andAssign': 'struct %s* o', 'eq': 'struct %s* o', 'ne': 'struct %s* o',
        'getMinBit': '', 'getMaxBit': '', 'bitCount': ''}

HARNESS = r'''
#ifdef CANARY
#define CANARY_POINT __CPROVER_assert(0, "canary: harness end reachable")
#else
#define CANARY_POINT
#endif
int nondet_int(void);
static void havoc_ghosts(void) { ghost_e = nondet_int(); ghost_ci = nondet_int(); ghost_k = nondet_int(); __CPROVER_havoc_object(ghost_sol); }
'''
GROUPS = []
for _cls in ('Domain', 'ConstrSet'):
    for _f in _BS_FUNCS:
        sig = _SIG[_f] % _cls if '%s' in _SIG[_f] else _SIG[_f]
        decl = '; '.join(x.strip() for x in sig.split(',')) + ';' if sig else ''
        args = ', '.join(x.strip().split()[-1].lstrip('*') for x in sig.split(',')) if sig else ''
        HARNESS += 'void h_%s_%s(void) { struct %s* s; %s havoc_ghosts(); %s_%s(s%s); CANARY_POINT; }\n' % (_cls, _f, _cls, decl, _cls, _f, (', ' + args) if args else '')
        repl = []
        if _f == 'setRange':
            repl = ['%s_removeSmaller' % _cls, '%s_removeLarger' % _cls]
        if _f == 'ne':
            repl = ['%s_eq' % _cls]
        if _f in ('getMinBit',):
            repl = ['BitUtil_firstBit']
        if _f in ('getMaxBit',):
            repl = ['BitUtil_lastBit']
        if _f == 'bitCount':
            repl = ['BitUtil_bitCount']
        GROUPS.append(Group('%s_%s' % (_cls, _f), 'h_%s_%s' % (_cls, _f), enforce='%s_%s' % (_cls, _f), replace=tuple(repl), min_props=2))

UNWIND = {'spec_popcount': 65, 'spec_lowest': 65, 'spec_highest': 65}
for _cls, _n in (('Domain', 2), ('ConstrSet', 4)):
    for _f in _BS_FUNCS:
        UNWIND['%s_%s' % (_cls, _f)] = _n
PROPERTIES = {'C20': [g.name for g in GROUPS]}

# ------------------------------------------------------------------ CspSolver
_SHAPE = ['__CPROVER_is_fresh(self, sizeof(*self))',
          '__CPROVER_is_fresh(self->domain.data, CSP_MAXVARS * sizeof(struct Domain))', '0 <= self->domain.size && self->domain.size <= CSP_MAXVARS',
          '__CPROVER_is_fresh(self->constr.data, CSP_MAXCONSTR * sizeof(struct Constraint))', '0 <= self->constr.size && self->constr.size <= CSP_MAXCONSTR',
          '__CPROVER_is_fresh(self->varToConstr.data, CSP_MAXVARS * sizeof(struct ConstrSet))', 'self->varToConstr.size == self->domain.size',
          '__CPROVER_is_fresh(self->prefVal.data, CSP_MAXVARS * sizeof(int))', 'self->prefVal.size == self->domain.size']
_VAR = '0 <= varNo && varNo < self->domain.size'
for _f, _post in (('makeEven', 'DOM_HAS(self->domain.data[varNo], ghost_e) == (DOM_HAS_W(__CPROVER_old(self->domain.data[varNo].data[0]), ghost_e) && (ghost_e % 2) == 0)'),
                  ('makeOdd', 'DOM_HAS(self->domain.data[varNo], ghost_e) == (DOM_HAS_W(__CPROVER_old(self->domain.data[varNo].data[0]), ghost_e) && (ghost_e % 2) != 0)')):
    CONTRACTS['CspSolver_' + _f] = {'requires': _SHAPE + [_VAR], 'assigns': ['self->domain.data[varNo]'], 'ensures': [_post]}
CONTRACTS['CspSolver_addMinVal'] = {'requires': _SHAPE + [_VAR, '-1000000 <= minVal && minVal < 48'], 'assigns': ['self->domain.data[varNo]'],
                                    'ensures': ['DOM_HAS(self->domain.data[varNo], ghost_e) == (DOM_HAS_W(__CPROVER_old(self->domain.data[varNo].data[0]), ghost_e) && ghost_e >= minVal)']}
CONTRACTS['CspSolver_addMaxVal'] = {'requires': _SHAPE + [_VAR, '-17 <= maxVal && maxVal <= 1000000'], 'assigns': ['self->domain.data[varNo]'],
                                    'ensures': ['DOM_HAS(self->domain.data[varNo], ghost_e) == (DOM_HAS_W(__CPROVER_old(self->domain.data[varNo].data[0]), ghost_e) && ghost_e <= maxVal)']}
CONTRACTS['CspSolver_getBitVal'] = {
    'requires': ['__CPROVER_is_fresh(self, sizeof(*self))', '!DOM_EMPTY(d)', '0 <= pref && pref <= 3'],
    'assigns': [],
    # whatever the preference order, the value returned is a member of the domain
    'ensures': ['DOM_HAS(d, __CPROVER_return_value)',
                # and the documented preference: SMALL = minimum, LARGE = maximum
                '(pref == PrefVal_SMALL && DOM_HAS(d, ghost_e)) ==> ghost_e >= __CPROVER_return_value',
                '(pref == PrefVal_LARGE && DOM_HAS(d, ghost_e)) ==> ghost_e <= __CPROVER_return_value'],
}
CONTRACTS['CspSolver_makeArcConsistent'] = {
    'requires': _SHAPE + ['CONSTR_WF(self)', 'V2C_BELOW(self)',
                 # the ghost assignment is a solution: inside every domain, satisfies every constraint
                 'SOL_IN_DOMS(self)', 'SOL_SAT_ALL(self)'],
    'assigns': ['__CPROVER_object_whole(self->domain.data)'],
    # a solution is never pruned, hence "false" is only returned for unsatisfiable systems; domains only shrink
    'ensures': ['__CPROVER_return_value', 'SOL_IN_DOMS(self)', 'DOMS_SHRUNK(self)'],
    'loops': {0: {'mode': 'cut',
                  'havoc': '__CPROVER_havoc_object(&constrMask); __CPROVER_havoc_object(self->domain.data);',
                  'invariant': ['SOL_IN_DOMS(self)', 'CS_BELOW(constrMask, self->constr.size)', 'DOMS_SHRUNK_G(self)']}},
}
SPEC += '#define DOMS_SHRUNK_G(self) (' + ' && '.join('(%d >= (self)->domain.size || DOM_SUBSET((self)->domain.data[%d], ghost_dom0[%d]))' % (k, k, k) for k in range(DATA_MAXV)) + ')\n'
SPEC += 'struct Domain ghost_dom0[CSP_MAXVARS];   /* domains at entry of makeArcConsistent (snapshot by ghost code) */\n'
CONTRACTS['CspSolver_makeArcConsistent']['ghost_entry'] = 'for (int ghost_i = 0; ghost_i < CSP_MAXVARS; ghost_i++) ghost_dom0[ghost_i] = self->domain.data[ghost_i];'
CONTRACTS['CspSolver_makeArcConsistent']['assigns'].append('__CPROVER_object_whole(ghost_dom0)')

SPEC += r'''
int ghost_w;   /* witness: the constraint found violated by the consistency test */
#define C_AT(self, i) ((self)->constr.data[i])
#define C_APPLIES(self, i, varNo) (C_AT(self, i).v1 <= (varNo) && C_AT(self, i).v2 <= (varNo))
#define C_SAT(self, i, vals) ((vals)->data[C_AT(self, i).v1] <= (vals)->data[C_AT(self, i).v2] + C_AT(self, i).c)
#define C_IDX(self, i) (0 <= (i) && (i) < (self)->constr.size)
'''
SPEC += '#define VALS_RANGE(vals) (' + ' && '.join('(vals)->data[%d] >= -16 && (vals)->data[%d] < 48' % (k, k) for k in range(DATA_MAXV)) + ')\n'
CONTRACTS['CspSolver_solveRecursive_check'] = {
    'requires': _SHAPE + ['CONSTR_WF(self)', 'V2C_BELOW(self)', _VAR, '__CPROVER_is_fresh(values, sizeof(*values))', 'values->size == self->domain.size',
                          '__CPROVER_is_fresh(values->data, CSP_MAXVARS * sizeof(int))', 'VALS_RANGE(values)'],
    'assigns': ['ghost_w'],
    # "valid" means: every constraint attached to varNo whose two variables are both assigned (index <= varNo) is satisfied (ghost_e: arbitrary constraint)
    'ensures': ['__CPROVER_return_value ==> ((C_IDX(self, ghost_e) && CS_HAS(self->varToConstr.data[varNo], ghost_e) && C_APPLIES(self, ghost_e, varNo)) ==> C_SAT(self, ghost_e, values))',
                # "invalid" has a witness: an attached constraint between assigned variables that is violated (no consistent value is rejected)
                '!__CPROVER_return_value ==> (C_IDX(self, ghost_w) && CS_HAS(self->varToConstr.data[varNo], ghost_w) && C_APPLIES(self, ghost_w, varNo) && !C_SAT(self, ghost_w, values))'],
    'ghost_at': [(r'allValid = false;', 'ghost_w = ci;')],
    'loops': {0: {'assigns': 'constrMask, allValid, ghost_w',
                  'invariant': ['allValid', 'CS_SUBSET(constrMask, self->varToConstr.data[varNo])',
                                '(C_IDX(self, ghost_e) && CS_HAS(self->varToConstr.data[varNo], ghost_e) && !CS_HAS(constrMask, ghost_e) && C_APPLIES(self, ghost_e, varNo)) ==> C_SAT(self, ghost_e, values)']}},
}
SPEC += r'''
int ghost_v0;
#define PRE_SAT(self, vals, n) ((C_IDX(self, ghost_e) && C_AT(self, ghost_e).v1 < (n) && C_AT(self, ghost_e).v2 < (n)) ==> C_SAT(self, ghost_e, vals))
#define PRE_DOM(self, vals, n) ((0 <= ghost_k && ghost_k < (n)) ==> DOM_HAS((self)->domain.data[ghost_k], (vals)->data[ghost_k]))
/* every constraint is attached to both of its variables (established by the loop in solve) */
#define V2C_COMPLETE_G(self) (C_IDX(self, ghost_e) ==> (CS_HAS((self)->varToConstr.data[C_AT(self, ghost_e).v1], ghost_e) && CS_HAS((self)->varToConstr.data[C_AT(self, ghost_e).v2], ghost_e)))
'''
CONTRACTS['CspSolver_solveRecursive_outer'] = {
    'requires': _SHAPE + ['CONSTR_WF(self)', 'V2C_BELOW(self)', 'V2C_COMPLETE_G(self)', _VAR, '__CPROVER_is_fresh(values, sizeof(*values))', 'values->size == self->domain.size',
                          '__CPROVER_is_fresh(values->data, CSP_MAXVARS * sizeof(int))', 'VALS_RANGE(values)',
                          # the variables below varNo are assigned consistently (ghost_e: arbitrary constraint, ghost_k: arbitrary variable)
                          'PRE_SAT(self, values, varNo)', 'PRE_DOM(self, values, varNo)', '0 <= ghost_k && ghost_k < CSP_MAXVARS'],
    'assigns': ['self->nodes', '__CPROVER_object_whole(values->data)', 'ghost_w'],
    'ensures': ['VALS_RANGE(values)',
                # "true" means: the assignment satisfies every constraint and every value is taken from its domain
                '__CPROVER_return_value ==> (C_IDX(self, ghost_e) ==> C_SAT(self, ghost_e, values))',
                '__CPROVER_return_value ==> PRE_DOM(self, values, self->domain.size)',
                # in every case the assignment of the earlier variables is untouched and stays consistent
                'ghost_k < varNo ==> values->data[ghost_k] == __CPROVER_old(values->data[ghost_k])', 'PRE_SAT(self, values, varNo)', 'PRE_DOM(self, values, varNo)'],
    'loops': {0: {'assigns': 'd, __CPROVER_object_whole(values->data), self->nodes, ghost_w',
                  'invariant': ['VALS_RANGE(values)', 'DOM_SUBSET(d, self->domain.data[varNo])', 'ghost_k < varNo ==> values->data[ghost_k] == __CPROVER_loop_entry(values->data[ghost_k])',
                                'PRE_SAT(self, values, varNo)', 'PRE_DOM(self, values, varNo)']}},
}
SPEC += '#define PREF_OK(self) (' + ' && '.join('(self)->prefVal.data[%d] >= 0 && (self)->prefVal.data[%d] <= 3' % (k, k) for k in range(DATA_MAXV)) + ')\n'
CONTRACTS['CspSolver_solveRecursive_outer']['requires'].append('PREF_OK(self)')
# the recursive call is a call of the function as pulled unmodified; it is replaced by the same contract (induction on the recursion depth)
CONTRACTS['CspSolver_solveRecursive'] = {k: v for k, v in CONTRACTS['CspSolver_solveRecursive_outer'].items() if k != 'loops'}
SPEC += '#define V2C_HAS_BOTH(self, i) (CS_HAS((self)->varToConstr.data[C_AT(self, i).v1], i) && CS_HAS((self)->varToConstr.data[C_AT(self, i).v2], i))\n'
CONTRACTS['CspSolver_solve_attach'] = {
    # solve() has just reset varToConstr to nVars empty sets (std::vector::assign, outside the subset: assumed)
    'requires': _SHAPE + ['CONSTR_WF(self)', 'V2C_BELOW(self)'],
    'assigns': ['__CPROVER_object_whole(self->varToConstr.data)'],
    # every constraint is attached to both of its variables; no bit at or above the number of constraints is set
    'ensures': ['C_IDX(self, ghost_e) ==> V2C_HAS_BOTH(self, ghost_e)', 'V2C_BELOW(self)'],
    'loops': {0: {'assigns': 'ci, __CPROVER_object_whole(self->varToConstr.data)',
                  'invariant': ['0 <= ci && ci <= nConstr', '(0 <= ghost_e && ghost_e < ci) ==> V2C_HAS_BOTH(self, ghost_e)', 'V2C_BELOW(self)']}},
}
HARNESS += 'void h_attach(void) { struct CspSolver* s; havoc_ghosts(); CspSolver_solve_attach(s); CANARY_POINT; }\n'
HARNESS += 'void h_sr_outer(void) { struct CspSolver* s; struct VecInt* v; int varNo; havoc_ghosts(); ghost_w = nondet_int(); ghost_v0 = nondet_int(); CspSolver_solveRecursive_outer(s, varNo, v); CANARY_POINT; }\n'
HARNESS += 'void h_sr_check(void) { struct CspSolver* s; struct VecInt* v; int varNo; havoc_ghosts(); ghost_w = nondet_int(); CspSolver_solveRecursive_check(s, varNo, v); CANARY_POINT; }\n'
CONTRACTS['ghost_constr_push'] = {'requires': ['0 <= ghost_pushes && ghost_pushes < 1000'], 'assigns': ['ghost_pushes', 'ghost_push_v1', 'ghost_push_v2', 'ghost_push_c'],
                                  'ensures': ['ghost_pushes == __CPROVER_old(ghost_pushes) + 1', 'ghost_push_v1 == v1 && ghost_push_v2 == v2 && ghost_push_c == c']}
SPEC += r'''
int ghost_x1, ghost_x2;   /* arbitrary values of the two variables of a constraint being added */
/* stored form: value(ghost_push_v1) <= value(ghost_push_v2) + ghost_push_c */
'''
CONTRACTS['CspSolver_addIneq'] = {
    'requires': _SHAPE + ['0 <= v1 && v1 < self->domain.size && 0 <= v2 && v2 < self->domain.size', 'op == Oper_LE || op == Oper_GE', '-1000 <= offs && offs <= 1000',
                          '0 <= ghost_pushes && ghost_pushes < 900', '-100 <= ghost_x1 && ghost_x1 <= 100 && -100 <= ghost_x2 && ghost_x2 <= 100', 'v1 == v2 ==> ghost_x1 == ghost_x2'],
    'assigns': ['ghost_pushes', 'ghost_push_v1', 'ghost_push_v2', 'ghost_push_c'],
    # exactly one constraint is appended, over the same two variables, and it means what was asked: for arbitrary values x1 of v1 and x2 of v2
    # the stored inequality holds exactly when  x1 <= x2 + offs  (LE)  resp.  x1 >= x2 + offs  (GE)  holds
    'ensures': ['ghost_pushes == __CPROVER_old(ghost_pushes) + 1',
                '(ghost_push_v1 == v1 && ghost_push_v2 == v2) || (ghost_push_v1 == v2 && ghost_push_v2 == v1)', '-1000 <= ghost_push_c && ghost_push_c <= 1000',
                '((ghost_push_v1 == v1 ? ghost_x1 : ghost_x2) <= (ghost_push_v2 == v2 ? ghost_x2 : ghost_x1) + ghost_push_c) == (op == Oper_LE ? ghost_x1 <= ghost_x2 + offs : ghost_x1 >= ghost_x2 + offs)'],
}
CONTRACTS['CspSolver_addEq'] = {
    # (the conditions on the free ghost values x1, x2 are those of addIneq: they are asserted where addIneq is replaced by its contract)
    'requires': _SHAPE + ['0 <= v1 && v1 < self->domain.size && 0 <= v2 && v2 < self->domain.size', '-1000 <= offs && offs <= 1000', '0 <= ghost_pushes && ghost_pushes < 800',
                          '-100 <= ghost_x1 && ghost_x1 <= 100 && -100 <= ghost_x2 && ghost_x2 <= 100', 'v1 == v2 ==> ghost_x1 == ghost_x2'],
    'assigns': ['ghost_pushes', 'ghost_push_v1', 'ghost_push_v2', 'ghost_push_c'],
    # an equality is stored as two inequalities
    'ensures': ['ghost_pushes == __CPROVER_old(ghost_pushes) + 2'],
}
HARNESS += 'void h_addIneq(void) { struct CspSolver* s; int a, b, op, o; havoc_ghosts(); ghost_pushes = nondet_int(); ghost_x1 = nondet_int(); ghost_x2 = nondet_int(); CspSolver_addIneq(s, a, op, b, o); CANARY_POINT; }\n'
HARNESS += 'void h_addEq(void) { struct CspSolver* s; int a, b, o; havoc_ghosts(); ghost_pushes = nondet_int(); ghost_x1 = nondet_int(); ghost_x2 = nondet_int(); CspSolver_addEq(s, a, b, o); CANARY_POINT; }\n'
for _f, _sig in (('makeEven', 'int v'), ('makeOdd', 'int v'), ('addMinVal', 'int v, int a'), ('addMaxVal', 'int v, int a')):
    decl = '; '.join(x.strip() for x in _sig.split(',')) + ';'
    args = ', '.join(x.strip().split()[-1] for x in _sig.split(','))
    HARNESS += 'void h_%s(void) { struct CspSolver* s; %s havoc_ghosts(); CspSolver_%s(s, %s); CANARY_POINT; }\n' % (_f, decl, _f, args)
    GROUPS.append(Group(_f, 'h_' + _f, enforce='CspSolver_' + _f,
                        replace={'makeEven': ('Domain_removeOdd',), 'makeOdd': ('Domain_removeEven',), 'addMinVal': ('Domain_removeSmaller',), 'addMaxVal': ('Domain_removeLarger',)}[_f], min_props=3))
HARNESS += 'void h_getBitVal(void) { struct CspSolver* s; struct Domain d; int pref; havoc_ghosts(); __CPROVER_havoc_object(&d); CspSolver_getBitVal(s, d, pref); CANARY_POINT; }\n'
HARNESS += 'void h_arc(void) { struct CspSolver* s; havoc_ghosts(); __CPROVER_havoc_object(ghost_dom0); CspSolver_makeArcConsistent(s); CANARY_POINT; }\n'
_DOMF = ('Domain_getMinBit', 'Domain_getMaxBit', 'Domain_getBit', 'Domain_removeLarger', 'Domain_removeSmaller', 'Domain_ne', 'Domain_empty')
_CSF = ('ConstrSet_setRange', 'ConstrSet_empty', 'ConstrSet_getMinBit', 'ConstrSet_orAssign', 'ConstrSet_clearBit')
GROUPS.append(Group('getBitVal', 'h_getBitVal', enforce='CspSolver_getBitVal', replace=('Domain_getMinBit', 'Domain_getMaxBit', 'Domain_getBit'), min_props=4,
                    unwindset={'CspSolver_getBitVal': 4}))
GROUPS.append(Group('makeArcConsistent', 'h_arc', enforce='CspSolver_makeArcConsistent', replace=_DOMF + _CSF, min_props=10, timeout=1800,
                    unwindset={'CspSolver_makeArcConsistent': DATA_MAXV + 1}))
PROPERTIES = {'C20': [g.name for g in GROUPS]}

# Manual enforcement (mode M: plain CBMC harness on typed objects, same contract text; DESIGN 2.2): dfcc's byte-level model of
# is_fresh'ed arrays makes the symbolic-index writes of this loop intractable (>30 min), the same obligations on typed arrays close quickly.
HARNESS += r"""
struct CspWorld { struct CspSolver cs; struct Domain dom[CSP_MAXVARS]; struct Constraint con[CSP_MAXCONSTR]; struct ConstrSet v2c[CSP_MAXVARS]; int pv[CSP_MAXVARS]; };
static void csp_world(struct CspWorld* w) {
    __CPROVER_havoc_object(w);
    w->cs.domain.data = w->dom; w->cs.constr.data = w->con; w->cs.varToConstr.data = w->v2c; w->cs.prefVal.data = w->pv;
    __CPROVER_assume(0 <= w->cs.domain.size && w->cs.domain.size <= CSP_MAXVARS && 0 <= w->cs.constr.size && w->cs.constr.size <= CSP_MAXCONSTR
                     && w->cs.varToConstr.size == w->cs.domain.size && w->cs.prefVal.size == w->cs.domain.size);
}
void h_arc_manual(void) {
    struct CspWorld w; havoc_ghosts(); __CPROVER_havoc_object(ghost_dom0); csp_world(&w);
    struct CspSolver* self = &w.cs;
    __CPROVER_assume(CONSTR_WF(self) && V2C_BELOW(self) && SOL_IN_DOMS(self) && SOL_SAT_ALL(self));
    struct CspWorld w0 = w;
    _Bool r = CspSolver_makeArcConsistent(self);
    __CPROVER_assert(r, "makeArcConsistent: a satisfiable system is never reported unsatisfiable");
    __CPROVER_assert(SOL_IN_DOMS(self), "makeArcConsistent: no value of any solution is pruned");
    __CPROVER_assert(DOMS_SHRUNK_G(self), "makeArcConsistent: domains only shrink");
    for (int i = 0; i < CSP_MAXCONSTR; i++) __CPROVER_assert(w.con[i].v1 == w0.con[i].v1 && w.con[i].v2 == w0.con[i].v2 && w.con[i].c == w0.con[i].c, "frame: constraints unchanged");
    for (int i = 0; i < CSP_MAXVARS; i++) __CPROVER_assert(w.v2c[i].data[0] == w0.v2c[i].data[0] && w.v2c[i].data[1] == w0.v2c[i].data[1] && w.v2c[i].data[2] == w0.v2c[i].data[2], "frame: varToConstr unchanged");
    CANARY_POINT;
}
"""
GROUPS = [g for g in GROUPS if g.name != 'makeArcConsistent']
GROUPS.append(Group('makeArcConsistent', 'h_arc_manual', min_props=10, timeout=1800, note='mode M (manual enforcement of the contract of CspSolver_makeArcConsistent; loop closed by L-cut)',
                    unwindset={'CspSolver_makeArcConsistent': DATA_MAXV + 1, 'h_arc_manual': 26}))
for _cls, _n in (('Domain', 2), ('ConstrSet', 4)):
    pass
PROPERTIES = {'C20': [g.name for g in GROUPS]}

# ---- exact word-level facts added to the BitSet contracts used by the solver loops (the ghost-element form only speaks
# about one arbitrary element; the loops need "for all elements", which the word-level form states without quantifier) ----
_W = 'self->data[0]'
CONTRACTS['Domain_getMaxBit']['ensures'] += ['!DOM_EMPTY(*self) ==> (-16 <= __CPROVER_return_value && __CPROVER_return_value < 48 && (__CPROVER_return_value == 47 || (self->data[0] >> (__CPROVER_return_value + 17)) == 0))']
CONTRACTS['Domain_getMinBit']['ensures'] += ['!DOM_EMPTY(*self) ==> (-16 <= __CPROVER_return_value && __CPROVER_return_value < 48 && (self->data[0] & ((1ULL << (__CPROVER_return_value + 16)) - 1)) == 0)']
CONTRACTS['Domain_removeLarger']['ensures'] += ['self->data[0] == (maxVal >= 47 ? __CPROVER_old(self->data[0]) : (__CPROVER_old(self->data[0]) & ((1ULL << ((maxVal + 17) & 63)) - 1)))']
CONTRACTS['Domain_removeSmaller']['ensures'] += ['self->data[0] == (minVal <= -16 ? __CPROVER_old(self->data[0]) : (__CPROVER_old(self->data[0]) & ~((1ULL << ((minVal + 16) & 63)) - 1)))']
CONTRACTS['ConstrSet_getMinBit']['ensures'] += ['!CS_EMPTY(*self) ==> (0 <= __CPROVER_return_value && __CPROVER_return_value < 192)']
for _k in range(3):
    CONTRACTS['ConstrSet_clearBit']['ensures'] += ['self->data[%d] == ((i >> 6) == %d ? (__CPROVER_old(self->data[%d]) & ~(1ULL << (i & 63))) : __CPROVER_old(self->data[%d]))' % (_k, _k, _k, _k)]
    CONTRACTS['ConstrSet_orAssign']['ensures'] += ['self->data[%d] == (__CPROVER_old(self->data[%d]) | b->data[%d])' % (_k, _k, _k)]
GROUPS = [g for g in GROUPS if g.name != 'makeArcConsistent']
GROUPS.append(Group('makeArcConsistent', 'h_arc', enforce='CspSolver_makeArcConsistent', replace=_DOMF + _CSF, min_props=10, timeout=1800,
                    unwindset={'CspSolver_makeArcConsistent': DATA_MAXV + 1}))
PROPERTIES = {'C20': [g.name for g in GROUPS]}

GROUPS = [g for g in GROUPS if g.name != 'makeArcConsistent']
GROUPS.append(Group('makeArcConsistent', 'h_M_arc', enforce='CspSolver_makeArcConsistent', replace=_DOMF + _CSF, mode='M', m_pre='    havoc_ghosts(); __CPROVER_havoc_object(ghost_dom0);\n',
                    min_props=10, timeout=1800, unwindset={'CspSolver_makeArcConsistent': DATA_MAXV + 1}))
PROPERTIES = {'C20': [g.name for g in GROUPS]}

# makeArcConsistent: the L-cut obligations "invariant base", "no solution value pruned at exit" and "domains only shrink at exit" close in
# 13-24 s each in mode M, but the inductive step and "never returns false for a satisfiable system" did not finish in 15 min
# (SAT reasoning about symbolic shifts of the 64-bit domain words); the group is therefore NOT part of the claim.
GROUPS.append(Group('solveRecursive_check', 'h_sr_check', enforce='CspSolver_solveRecursive_check', replace=('ConstrSet_empty', 'ConstrSet_getMinBit', 'ConstrSet_clearBit'),
                    loop_contracts=True, min_props=10, expect_loop_props=1, timeout=1800))
GROUPS.append(Group('addIneq', 'h_addIneq', enforce='CspSolver_addIneq', replace=('ghost_constr_push',), min_props=5))
GROUPS.append(Group('addEq', 'h_addEq', enforce='CspSolver_addEq', replace=('CspSolver_addIneq',), min_props=3))
GROUPS.append(Group('solve_attach', 'h_attach', enforce='CspSolver_solve_attach', replace=('ConstrSet_setBit',), loop_contracts=True, min_props=5, expect_loop_props=1, timeout=1800))
GROUPS.append(Group('solveRecursive', 'h_sr_outer', enforce='CspSolver_solveRecursive_outer', tier='thorough',
                    replace=('CspSolver_solveRecursive', 'CspSolver_solveRecursive_check', 'CspSolver_getBitVal', 'Domain_empty', 'Domain_clearBit'),
                    loop_contracts=True, min_props=10, expect_loop_props=1, timeout=7200))
PROPERTIES = {'C20': [g.name for g in GROUPS if g.name != 'makeArcConsistent']}
ASSUMPTIONS = {'C20': ['callers respect the documented argument ranges of addMinVal/addMaxVal/setRange (the repo asserts in addVariable/addIneq; their callers in extproofkernel.cpp are outside the subset)']}
NOT_DECIDED = {'C20': ['CspSolver::makeArcConsistent (loop invariant with a ghost solution written and cut mechanically, inductive step not discharged within 15 min by any back end tried)',
                       'CspSolver::solveRecursive: soundness is under contract (a reported solution satisfies every constraint and lies in the domains; the consistency test has a witness for every rejection); completeness of the search (no solution missed) and solve() (construction of varToConstr, logging) are not',
                       'hence "reports solvable exactly when a solution exists" is NOT decided; decided are the bit-set primitives of both instantiations, the domain-restriction functions and getBitVal (returned value is a member for every preference order)',
                       'termination']}
MUTANTS = [
    dict(name='removeOdd_parity', file='lib/texelutillib/bitSet.hpp', pattern=r'if \(offs % 2\)\n            ptrn <<= 1;', repl='if (offs % 2 == 0)\n            ptrn <<= 1;', groups=['Domain_removeOdd', 'ConstrSet_removeOdd']),
    dict(name='removeSmaller_off_by_one', file='lib/texelutillib/bitSet.hpp', pattern=r'data\[w\] &= ~\(\(1ULL << \(minVal&63\)\) - 1\);', repl='data[w] &= ~((2ULL << (minVal&63)) - 1);', groups=['Domain_removeSmaller']),
    dict(name='removeLarger_no_increment', file='lib/texelutillib/bitSet.hpp', pattern=r'        maxVal -= offs;\n        maxVal\+\+;', repl='        maxVal -= offs;', groups=['Domain_removeLarger']),
    dict(name='removeLarger_words', file='lib/texelutillib/bitSet.hpp', pattern=r'while \(\+\+w < nWords\)', repl='while (++w < nWords - 1)', groups=['ConstrSet_removeLarger']),
    dict(name='getMaxBit_offset', file='lib/texelutillib/bitSet.hpp', pattern=r'return i \* 64 \+ BitUtil::lastBit\(data\[i\]\) \+ offs;', repl='return i * 64 + BitUtil::lastBit(data[i]) - offs;', groups=['Domain_getMaxBit']),
    dict(name='getMinBit_word_order', file='lib/texelutillib/bitSet.hpp', pattern=r'int getMinBit\(\) const \{\n        for \(int i = 0; i < nWords; i\+\+\)', repl='int getMinBit() const {\n        for (int i = nWords - 1; i >= 0; i--)', groups=['ConstrSet_getMinBit']),
    dict(name='getBitVal_middle_small', file='lib/texelutillib/pg/cspsolver.cpp', pattern=r'for \(int b = 3; b >= 1; b--\)\n            if \(d.getBit\(b\)\)\n                return b;', repl='for (int b = 3; b >= 1; b--)\n            if (d.getBit(b))\n                return b - 1;', groups=['getBitVal']),
    dict(name='makeOdd_is_even', file='lib/texelutillib/pg/cspsolver.cpp', pattern=r'domain\[varNo\]\.removeEven\(\);', repl='domain[varNo].removeOdd();', groups=['makeOdd']),
    dict(name='setRange_order', file='lib/texelutillib/bitSet.hpp', pattern=r'removeSmaller\(minVal\);\n        removeLarger\(maxVal\);', repl='removeSmaller(maxVal);\n        removeLarger(minVal);', groups=['Domain_setRange']),
    dict(name='addIneq_ge_sign', file='lib/texelutillib/pg/cspsolver.cpp', pattern=r'        std::swap\(v1, v2\);\n        offs = -offs;', repl='        std::swap(v1, v2);', groups=['addIneq']),
    dict(name='addEq_one_direction', file='lib/texelutillib/pg/cspsolver.hpp', pattern=r'    addIneq\(v1, LE, v2, offs\);\n    addIneq\(v1, GE, v2, offs\);', repl='    addIneq(v1, LE, v2, offs);', groups=['addEq']),
    dict(name='sr_check_ge', file='lib/texelutillib/pg/cspsolver.cpp', pattern=r'if \(values\[c\.v1\] > values\[c\.v2\] \+ c\.c\) \{', repl='if (values[c.v1] >= values[c.v2] + c.c) {', groups=['solveRecursive_check']),
    dict(name='sr_check_skips_own_var', file='lib/texelutillib/pg/cspsolver.cpp', pattern=r'if \(c\.v1 <= varNo && c\.v2 <= varNo\) \{', repl='if (c.v1 < varNo && c.v2 <= varNo) {', groups=['solveRecursive_check']),
    dict(name='sr_early_success', file='lib/texelutillib/pg/cspsolver.cpp', pattern=r'if \(varNo == nValues - 1\)', repl='if (varNo >= nValues - 2)', groups=['solveRecursive']),
    dict(name='orAssign_and', file='lib/texelutillib/bitSet.hpp', pattern=r'data\[i\] \|= b.data\[i\];', repl='data[i] &= b.data[i];', groups=['ConstrSet_orAssign']),
]
