#!/usr/bin/env python3
"""./check <property> [--tier quick|thorough]   |   ./check replay <file>"""
import sys, os, json, time, tempfile, shutil, importlib.util, re, hashlib, subprocess, traceback
HERE = os.path.dirname(os.path.abspath(__file__))
ROOT = os.path.dirname(HERE)
sys.path.insert(0, HERE)
import cxx2c, unitlib, prove
from cxx2c import ExtractError

# property -> units that contribute groups
PROP_UNITS = {
    'C08': ['tt'],
    'C06': ['timectl'],
    'C02': ['position'],
    'C11': ['draws'],
    'C20': ['csp'],
    'C12': ['tt', 'mate', 'tbindex'],
    'C01': ['bits', 'bbtables', 'movegen'],
    'C04': ['tt', 'mate'],
    'C13': ['mate'],
    'C18': ['book'],
    'C07': ['nn'],
}


def load_unit(name):
    path = os.path.join(ROOT, 'units', name, 'unit.py')
    spec = importlib.util.spec_from_file_location('unit_' + name, path)
    m = importlib.util.module_from_spec(spec)
    spec.loader.exec_module(m)
    return m


def build_unit(name, workdir, save=True):
    m = load_unit(name)
    U = m.build()
    c = U.emit(m.CONTRACTS, extra_c=m.SPEC) + '\n/* ---- harness ---- */\n' + m.HARNESS
    cfile = os.path.join(workdir, name + '.c')
    with open(cfile, 'w') as f:
        f.write(c)
    if save:
        d = os.path.join(ROOT, 'evidence', 'build', name)
        os.makedirs(d, exist_ok=True)
        with open(os.path.join(d, 'unit.c'), 'w') as f:
            f.write(c)
        with open(os.path.join(d, 'extraction.json'), 'w') as f:
            json.dump(U.manifest(), f, indent=1)
    return m, U, cfile


def mmode_file(U, m, g, base_c, workdir):
    """C file for a mode-M group: replaced functions become stubs generated from their contracts, the function
    under contract gets a generated enforcement harness (tools/mmode.py)."""
    import mmode
    protos = {f.cname: f.proto for f in U.funcs}
    for cn, pr in getattr(U, 'stubs', []):
        protos[cn] = pr
    text = base_c
    stubs = []
    for r in g.replace:
        if r not in protos:
            raise ExtractError('mode M: unknown function %s' % r)
        pr = protos[r]
        if r in [f.cname for f in U.funcs]:
            # rename the extracted definition
            old = '\n' + pr + '\n{'
            if text.count(old) != 1:
                raise ExtractError('mode M: definition of %s not found exactly once' % r)
            text = text.replace(old, '\n' + pr.replace(r + '(', r + '__impl(', 1) + '\n{')
        stubs.append(mmode.stub(pr, m.CONTRACTS[r], r))
    text += '\n/* ---- mode M stubs (generated from the contracts) ---- */\n' + '\n'.join(stubs)
    if g.enforce:
        text += '\n/* ---- mode M enforcement harness (generated from the contract) ---- */\n' + mmode.harness(protos[g.enforce], m.CONTRACTS[g.enforce], g.harness, pre=g.m_pre)
    path = os.path.join(workdir, '%s.%s.c' % (U.name, re.sub(r'\W', '_', g.name)))
    with open(path, 'w') as fh:
        fh.write(text)
    return path


def scan_assumptions(ctext):
    """Mechanical scan for assume/stub/wildcard (DESIGN 2.2 guard (d))."""
    found = []
    for m in re.finditer(r'__CPROVER_assume\s*\(', ctext):
        line = ctext.count('\n', 0, m.start()) + 1
        found.append('__CPROVER_assume at generated line %d' % line)
    return found


def known_findings():
    p = os.path.join(ROOT, 'known_findings.json')
    if os.path.exists(p):
        return json.load(open(p))
    return {'open': [], 'fixed': []}


def main():
    args = sys.argv[1:]
    if not args:
        print(__doc__)
        return 2
    if args[0] == 'replay':
        import replay
        return replay.main(args[1:])
    prop = args[0]
    tier = os.environ.get('VERIF_TIER', 'quick')
    only = None
    keep = False
    i = 1
    while i < len(args):
        if args[i] == '--tier':
            tier = args[i + 1]; i += 2
        elif args[i] == '--only':
            only = args[i + 1].split(','); i += 2
        elif args[i] == '--keep':
            keep = True; i += 1
        else:
            i += 1
    seed = int(os.environ.get('VERIF_SEED', '0') or 0)
    t0 = time.time()
    workdir = tempfile.mkdtemp(prefix='verif_%s_' % prop, dir=os.environ.get('VERIF_TMP', '/var/tmp'))
    evid_path = os.path.join(ROOT, 'evidence', prop + '.json')
    os.makedirs(os.path.dirname(evid_path), exist_ok=True)
    if only or os.path.realpath(os.environ.get('VERIF_REPO', '/repo')) != '/repo':
        # a partial run or a run against a scratch copy of the tree (development aids) must not replace the evidence of the registered command
        evid_path = os.path.join(os.environ.get('VERIF_TMP', '/var/tmp'), 'partial_evidence_%s.json' % prop)
    try:
        return run_property(prop, tier, seed, workdir, evid_path, t0, only)
    finally:
        if not keep:
            shutil.rmtree(workdir, ignore_errors=True)
        else:
            print('workdir kept:', workdir)


def run_property(prop, tier, seed, workdir, evid_path, t0, only):
    units = PROP_UNITS.get(prop)
    if not units:
        print('property %s is not claimed (see MANIFEST.not_applicable)' % prop)
        return 2
    all_results = []
    unit_info = {}
    undecided = []
    assumptions = []
    trusted = ['CBMC 6.11.0 (goto-cc, goto-instrument --dfcc, cbmc)', 'cxx2c translation axioms (DESIGN 2.1)']
    not_decided = []
    groups_run = []
    skipped = []
    pending = []
    try:
        cxx2c.Source.reset()
        for un in units:
            m, U, cfile = build_unit(un, workdir)
            names = m.PROPERTIES.get(prop, [])
            gs = [g for g in m.GROUPS if (g.name in names if only is None else g.name in only)]
            run_gs = []
            for g in gs:
                uw = dict(getattr(m, 'UNWIND', {}))
                uw.update(g.unwindset or {})
                g.unwindset = uw
                if g.loop_contracts:
                    g.no_unwind_funcs = tuple(set(g.no_unwind_funcs) | set(k for k, v in m.CONTRACTS.items() if v.get('loops')))
                if tier == 'quick' and g.tier in ('thorough', 'deep') and only is None:
                    skipped.append(un + '.' + g.name)
                elif g.tier == 'deep' and only is None and not os.environ.get('VERIF_DEEP'):
                    # hours per case: run only on request (VERIF_DEEP=1 ./check <id> --tier thorough); the recorded run is in evidence_archive/
                    skipped.append(un + '.' + g.name + ' (deep tier: VERIF_DEEP=1)')
                else:
                    run_gs.append(g)
            print('[%s] unit %s: %d groups (%d skipped in %s tier), %d functions extracted from %d files' %
                  (prop, un, len(run_gs), len(gs) - len(run_gs), tier, len(U.funcs), len(U.files)))
            base_c = open(cfile).read()
            files = {}
            for g in run_gs:
                files[g.name] = mmode_file(U, m, g, base_c, workdir) if g.mode == 'M' else cfile
            # the groups of all units of the property are proved in ONE pool (below), so that a long group of one unit does not delay the others
            for g in run_gs:
                g._cfile = files.get(g.name, cfile)
                g._unit = un
            pending.extend(run_gs)
            unit_info[un] = U.manifest()
            # mechanical scan for unchecked assumptions: assume statements in the harness / spec text, stubs with assumed contracts
            unit_info[un]['assume_statements_in_harness'] = len(re.findall(r'__CPROVER_assume\s*\(', getattr(m, 'HARNESS', '')))
            unit_info[un]['assume_statements_in_spec'] = len(re.findall(r'__CPROVER_assume\s*\(', getattr(m, 'SPEC', '')))
            assumptions += getattr(m, 'ASSUMPTIONS', {}).get(prop, [])
            not_decided += getattr(m, 'NOT_DECIDED', {}).get(prop, [])
            trusted += getattr(m, 'TRUSTED', [])
            for a in scan_assumptions(open(cfile).read()):
                assumptions.append('%s: %s (inside lemma harness or spec; listed by mechanical scan)' % (un, a))
        unit_of = {}
        for g in pending:
            if g.name in unit_of and unit_of[g.name] != g._unit:
                raise ExtractError('group name %s used by two units of %s' % (g.name, prop))
            unit_of[g.name] = g._unit
        res = prove.prove_all(lambda g: g._cfile, pending, workdir, jobs=int(os.environ.get('VERIF_JOBS', '16')))
        for r in res:
            r['unit'] = unit_of[r['group'].split('[')[0]]
        all_results += res
    except ExtractError as e:
        print('EXTRACTION BROKEN (undecided, exit 2): %s' % e)
        write_evidence(evid_path, prop, tier, seed, t0, [], {}, ['extraction broken: %s' % e], trusted, [], 0, [], error=str(e))
        return 2
    # classify
    violations = []
    kf = known_findings()
    known_hits = []
    obligations = discharged = 0
    for r in all_results:
        if r['canary']:
            ok = r['status'] == 'failed' and any('canary' in (f.get('description') or '') for f in r['failed'])
            # in a canary build every real obligation must still hold, only the canary may fail
            others = [f for f in r['failed'] if 'canary' not in (f.get('description') or '')]
            if not ok:
                undecided.append('%s.%s canary did not fail (vacuous precondition or unreachable end): %s %s' % (r['unit'], r['group'], r['status'], r['reason'][:200]))
            continue
        obligations += r['props']
        if r['status'] == 'discharged':
            discharged += r['ok']
        elif r['status'] == 'failed':
            discharged += r['ok']
            for f in r['failed']:
                violations.append((r, f))
        else:
            undecided.append('%s.%s: %s' % (r['unit'], r['group'], r['reason'][:400]))
    rc = 0
    nviol = 0
    os.makedirs(os.path.join(ROOT, 'replays'), exist_ok=True)
    import glob
    for old in glob.glob(os.path.join(ROOT, 'replays', prop + '-*.json')):
        os.remove(old)
    reported = set()
    for r, f in violations:
        oblig = '%s.%s:%s' % (r['unit'], r['group'], f.get('property'))
        match = None
        for k in kf.get('open', []):
            if k['property'] == prop and k['unit'] == r['unit'] and k['group'] == r['group'] and re.search(k['obligation_re'], (f.get('property') or '') + ' ' + (f.get('description') or '')):
                match = k
        if match:
            if match['id'] not in known_hits:
                known_hits.append(match['id'])
                print('KNOWN-FINDING: property=%s %s' % (prop, match['what']))
            continue
        key = (r['unit'], r['group'])
        import replay
        path, reproduced = replay.make_replay(prop, r, f, ROOT)
        nviol += 1
        if key in reported:
            continue
        reported.add(key)
        print('VIOLATION property=%s replay=%s%s' % (prop, path, '' if reproduced else ' no-failing-input-found'))
        rc = 1
    if rc == 0 and undecided:
        for u in undecided:
            print('UNDECIDED: ' + u)
        rc = 2
    kill = None
    if tier == 'thorough' and rc == 0 and not only and not os.environ.get('VERIF_NO_MUTANTS'):
        # kill matrix (DESIGN 2.2 (e)): listed source mutations on a scratch copy; a survivor is a weakness of the contract, not a violation
        import mutants
        kill = []
        for un in units:
            m = load_unit(un)
            names = set(m.PROPERTIES.get(prop, []))
            sel = [mu['name'] for mu in getattr(m, 'MUTANTS', []) if set(mu['groups']) & names]
            # mutants of thorough-only groups (10-60 min per case) are not re-run inside the check: tools/mutants.py <unit> <name> (results in DESIGN 13.12)
            slow_groups = set(g.name for g in m.GROUPS if g.tier in ('thorough', 'deep'))
            if not os.environ.get('VERIF_ALL_MUTANTS'):
                slow = [mu['name'] for mu in getattr(m, 'MUTANTS', []) if mu['name'] in sel and set(mu['groups']) & slow_groups]
                sel = [x for x in sel if x not in slow]
                kill += [dict(unit=un, mutant=x, result='not-run-in-check (thorough-only group; see DESIGN 13.12)') for x in slow]
            if sel:
                print('[%s] kill matrix of unit %s: %d mutants' % (prop, un, len(sel)))
                kill += [dict(unit=un, **r) for r in mutants.run_mutants(un, sel, jobs=int(os.environ.get('VERIF_JOBS', '16')))]
    write_evidence(evid_path, prop, tier, seed, t0, all_results, unit_info, assumptions, trusted, not_decided, nviol, skipped,
                   undecided=undecided, known=known_hits, kill=kill)
    print('[%s] tier=%s obligations=%d discharged=%d violations=%d undecided=%d wall=%.1fs -> exit %d' %
          (prop, tier, obligations, discharged, nviol, len(undecided), time.time() - t0, rc))
    return rc


def write_evidence(path, prop, tier, seed, t0, results, unit_info, assumptions, trusted, not_decided, nviol, skipped,
                   undecided=(), known=(), error=None, kill=None):
    main = [r for r in results if not r['canary']]
    canaries = [r for r in results if r['canary']]
    # groups that carry a data/size bound are bounded stand-ins: reported, never counted as proved
    obligations = sum(r['props'] for r in main if not r.get('bounded'))
    discharged = sum(r['ok'] for r in main if r['status'] in ('discharged', 'failed') and not r.get('bounded'))
    samples = []
    for r in main[:6]:
        for s in r['samples'][:2]:
            samples.append({'group': r['unit'] + '.' + r['group'], 'obligation': s['property'], 'text': s['description']})
    funcs = []
    for un, info in unit_info.items():
        for f in info['functions']:
            funcs.append('%s (%s:%d-%d)%s' % (f['qual'], f['file'], f['lines'][0], f['lines'][1], ' [fragment]' if f['fragment'] else ''))
    ev = {
        'property_id': prop, 'tier': tier, 'seed': seed, 'level': 'proof',
        'coverage': {
            'obligations': obligations, 'discharged': discharged,
            'checker_cmd': 'goto-cc --function <h>; goto-instrument --unwindset <contract-less loops> --unwinding-assertions; goto-instrument --dfcc <h> --enforce-contract <f> --replace-call-with-contract <g>.. --apply-loop-contracts; cbmc ' + ' '.join(prove.CHECKS) + ' --object-bits 12',
            'trusted_base': trusted,
            'samples': samples,
            'groups': [{'group': r['unit'] + '.' + r['group'], 'harness': r['harness'], 'function_under_contract': r['enforce'],
                        'callees_replaced_by_contract': r['replace'], 'backend': r['backend'], 'mode': r.get('mode', 'dfcc'), 'obligations': r['props'],
                        'discharged': r['ok'], 'status': r['status'], 'seconds': r['secs'], 'reason': r['reason'][:300],
                        'loop_contract_obligations': r['loop_props'], 'bounded': r.get('bounded', ''), 'note': r.get('note', '')} for r in main],
            'bounded_stand_ins': [{'group': r['unit'] + '.' + r['group'], 'bound': r['bounded'], 'obligations': r['props'], 'discharged': r['ok']} for r in main if r.get('bounded')],
            'canaries': [{'group': r['unit'] + '.' + r['group'], 'failed_as_required': r['status'] == 'failed'} for r in canaries],
            'functions_extracted': funcs,
            'skipped_in_quick': skipped,
            'undecided': list(undecided),
            'known_findings_hit': list(known),
            'not_decided': not_decided,
            'extraction': {un: {'files_sha256': info['files'], 'translation_pins': info['translation_pins'], 'atomic_rewrites': info['atomic_rewrites'],
                                'extraction_rules_fired': info.get('rules_log', [])[:200]} for un, info in unit_info.items()},
            'unchecked_scan': {un: {'stubs_with_assumed_contract': info.get('stubs_with_assumed_contract', []),
                                    'assume_statements_in_harness (lemma / bounded harness preconditions)': info.get('assume_statements_in_harness', 0),
                                    'assume_statements_in_spec': info.get('assume_statements_in_spec', 0)} for un, info in unit_info.items()},
            'solver_seconds_total': round(sum(r['secs'] for r in main), 1),
            'kill_matrix': kill if kill is not None else 'thorough tier only',
        },
        'assumptions': assumptions,
        'wall_s': round(time.time() - t0, 2),
        'violations': nviol,
    }
    if error:
        ev['coverage']['explanation'] = error
        ev['coverage']['evaluations'] = 1
        ev['coverage']['distinct_nontrivial'] = 2
    with open(path, 'w') as f:
        json.dump(ev, f, indent=1)


if __name__ == '__main__':
    sys.exit(main())
