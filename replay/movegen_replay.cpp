// Native replay for unit movegen (C01): builds the position of a CBMC counterexample with the real Position class of /repo,
// runs the real (whole) function - a generator of MoveGen, or givesCheck / sqAttacked / inCheck - and compares with the
// oracle, which is the SAME spec text the proof uses (units/movegen SPEC, compiled as C into spec_oracle.c by the driver).
// Exit 1 = violation reproduced on the real code, 0 = not reproduced, 2 = usage / position not constructible.
#include "position.hpp"
#include "moveGen.hpp"
#include "textio.hpp"
#include <cstdio>
#include <cstdlib>
#include <cstring>
#include <string>

extern "C" {
void oracle_set(const int* sq, int wm, int cm, int ep);
int oracle_pseudo_legal(int f, int t, int p);
int oracle_evasion_candidate(int f, int t, int p);
int oracle_capture_class(int f, int t, int p);
int oracle_gives_check(int f, int t, int p);
int oracle_leaves_king_safe(int f, int t, int p);
int oracle_in_check(void);
int oracle_opponent_in_check(void);
}

int main(int argc, char** argv) {
    if (argc < 72) { std::printf("usage: kind sq0..sq63 whiteMove castleMask epSquare from to promoteTo\n"); return 2; }
    std::string kind = argv[1];
    int sq[64];
    for (int i = 0; i < 64; i++) sq[i] = std::atoi(argv[2 + i]);
    int wm = std::atoi(argv[66]), cm = std::atoi(argv[67]), ep = std::atoi(argv[68]);
    int from = std::atoi(argv[69]), to = std::atoi(argv[70]), promo = std::atoi(argv[71]);
    Position pos;
    for (int i = 0; i < 64; i++) {
        if (sq[i] < 0 || sq[i] > 12) { std::printf("piece code out of range on square %d\n", i); return 2; }
        pos.setPiece(Square(i), sq[i]);
    }
    pos.setWhiteMove(wm != 0);
    pos.setCastleMask(cm);
    pos.setEpSquare(ep >= 0 && ep < 64 ? Square(ep) : Square());
    oracle_set(sq, wm, cm, ep);
    std::printf("position: %s  move %d->%d promote %d  kind %s\n", TextIO::toFEN(pos).c_str(), from, to, promo, kind.c_str());
    if (oracle_opponent_in_check()) { std::printf("side not to move is in check: outside the domain of the generators\n"); }
    Move m(Square(from), Square(to), promo);
    bool ok = true;
    if (kind == "pseudoLegalMoves" || kind == "checkEvasions" || kind == "pseudoLegalCaptures") {
        MoveList ml;
        int want;
        if (kind == "pseudoLegalMoves") { MoveGen::pseudoLegalMoves(pos, ml); want = oracle_pseudo_legal(from, to, promo); }
        else if (kind == "pseudoLegalCaptures") { MoveGen::pseudoLegalCaptures(pos, ml); want = oracle_capture_class(from, to, promo); }
        else {
            if (!oracle_in_check()) { std::printf("not in check: checkEvasions is not called for this position\n"); return 0; }
            MoveGen::checkEvasions(pos, ml); want = oracle_evasion_candidate(from, to, promo);
        }
        int hits = 0;
        for (int i = 0; i < ml.size; i++)
            if (ml[i].from() == m.from() && ml[i].to() == m.to() && ml[i].promoteTo() == m.promoteTo()) hits++;
        std::printf("real %s emits the move %d time(s); the rules-of-chess spec says %d\n", kind.c_str(), hits, want);
        ok = hits == want;
    } else if (kind == "givesCheck") {
        if (!oracle_pseudo_legal(from, to, promo) || !oracle_leaves_king_safe(from, to, promo)) { std::printf("move is not legal in this position: outside the contract of givesCheck\n"); return 0; }
        bool got = MoveGen::givesCheck(pos, m); int want = oracle_gives_check(from, to, promo);
        std::printf("real givesCheck = %d; playing the move says %d\n", (int)got, want);
        ok = (int)got == want;
    } else if (kind == "inCheck") {
        bool got = MoveGen::inCheck(pos); int want = oracle_in_check();
        std::printf("real inCheck = %d; spec says %d\n", (int)got, want);
        ok = (int)got == want;
    } else {
        std::printf("no native driver for kind %s\n", kind.c_str());
        return 0;
    }
    std::printf(ok ? "postcondition holds natively\n" : "VIOLATED natively\n");
    return ok ? 0 : 1;
}
