"""Unit csp (C20): BitSet<64,-16> (Domain), BitSet<192,0> (ConstrSet) and CspSolver."""
import sys, os, re
sys.path.insert(0, os.path.dirname(os.path.dirname(os.path.abspath(__file__))))
from unitlib import Unit, ClassInfo, norm
from cxx2c import ExtractError, find_fields, find_function
from prove import Group
import common

BS_H = 'lib/texelutillib/bitSet.hpp'
CS_H = 'lib/texelutillib/pg/cspsolver.hpp'
CS_C = 'lib/texelutillib/pg/cspsolver.cpp'

BS_METHODS = [('clear', 0), ('operator==', 1), ('operator!=', 1), ('setBit', 1), ('clearBit', 1), ('getBit', 1), ('empty', 0), ('setRange', 2),
              ('removeOdd', 0), ('removeEven', 0), ('removeSmaller', 1), ('removeLarger', 1), ('operator|=', 1), ('operator&=', 1),
              ('getMinBit', 0), ('getMaxBit', 0), ('bitCount', 0)]
OPNAMES = {'operator==': 'eq', 'operator!=': 'ne', 'operator|=': 'orAssign', 'operator&=': 'andAssign'}
LOGRULE = (r'LOG\([^;]*\);', '', '0+')


def bitset(U, name, N, offs):
    nwords = N // 64
    U.raw('struct %s { U64 data[%d]; };   /* BitSet<%d,%d> */\n' % (name, nwords, N, offs))
    ci = ClassInfo(name); ci.fields = {'data': ('U64[%d]' % nwords, '[%d]' % nwords)}
    ci.default_init = '{{0}}'
    ci.copy_ok = True
    U.tr.add_class(ci)
    ts = {'N': str(N), 'offs': '(%d)' % offs, 'nWords': str(nwords), 'numBits': str(N), 'minAllowed': '(%d)' % offs}
    for m, n in BS_METHODS:
        U.pull(BS_H, 'BitSet::' + m, nparams=n, self_cls=name, cname='%s_%s' % (name, OPNAMES.get(m, m)), tsubst=ts, as_static=False, type_alias={'BitSet': name})
    U.tr.consts[name + '::numBits'] = str(N)
    U.tr.consts[name + '::minAllowed'] = '(%d)' % offs


def build():
    U = Unit('csp')
    src = U.src(BS_H)
    if [(norm(f[0]), f[1], norm(f[2])) for f in find_fields(src, 'BitSet')] != [('U64', 'data', '[nWords]')]:
        raise ExtractError('pin changed: data members of BitSet')
    if not re.search(r'constexpr static int nWords = \(N \+ 63\) / 64;', src.text):
        raise ExtractError('pin changed: BitSet::nWords')
    # copy constructor / operator= are element-wise copies == C struct assignment
    f = find_function(src, 'BitSet::operator=', nparams=1)
    if norm(f.body) != 'for (int i = 0; i < nWords; i++) data[i] = b.data[i]; return *this;':
        raise ExtractError('pin changed: BitSet::operator=')
    cs = U.src(CS_C)
    if not re.search(r'#else\s*#define LOG\(x\) do \{ \} while \(false\)\s*#endif', cs.text) or re.search(r'^\s*#define CSPDEBUG', cs.text, re.M):
        raise ExtractError('pin changed: LOG macro of cspsolver.cpp is no longer a no-op')
    common.bit_primitives(U)
    bitset(U, 'Domain', 64, -16)
    bitset(U, 'ConstrSet', 192, 0)
    U.tr.typemap['CspSolver::Domain'] = 'struct Domain'; U.tr.typemap['CspSolver::PrefVal'] = 'int'
    U.enum(CS_H, 'PrefVal', scope='CspSolver')
    U.enum(CS_H, 'Oper', scope='CspSolver', prefix='Oper_')
    U.tr.consts['LE'] = 'Oper_LE'; U.tr.consts['GE'] = 'Oper_GE'
    U.const(CS_H, 'minAllowedValue', 'CspSolver')
    U.struct(CS_H, 'Constraint', expect=[('const int', 'v1', ''), ('const int', 'v2', ''), ('const int', 'c', '')])
    MAXV, MAXC = 16, 192
    U.raw('#define CSP_MAXVARS %d\n#define CSP_MAXCONSTR %d\n'
          'struct VecDomain { struct Domain* data; int size; };\nstruct VecConstrSet { struct ConstrSet* data; int size; };\n'
          'struct VecConstraint { struct Constraint* data; int size; };\nstruct VecInt { int* data; int size; };\n' % (MAXV, MAXC))
    for cxx, c in (('std::vector<Domain>', 'struct VecDomain'), ('std::vector<ConstrSet>', 'struct VecConstrSet'),
                   ('std::vector<Constraint>', 'struct VecConstraint'), ('std::vector<PrefVal>', 'struct VecInt'), ('std::vector<int>', 'struct VecInt')):
        U.tr.typemap[cxx] = c
    U.struct(CS_H, 'CspSolver', only=['domain', 'prefVal', 'constr', 'varToConstr', 'nodes'],
             typeover={'domain': ('struct VecDomain', 'std::vector<Domain>', ''), 'prefVal': ('struct VecInt', 'std::vector<int>', ''),
                       'constr': ('struct VecConstraint', 'std::vector<Constraint>', ''), 'varToConstr': ('struct VecConstrSet', 'std::vector<ConstrSet>', '')})
    U.tr.consts['Domain::numBits'] = '64'
    P = U.pull
    for m in ('makeEven', 'makeOdd', 'addMinVal', 'addMaxVal'):
        P(CS_C, 'CspSolver::' + m, rules=[LOGRULE])
    P(CS_C, 'CspSolver::getBitVal')
    P(CS_C, 'CspSolver::makeArcConsistent', rules=[LOGRULE, (r'd != dOld', 'Domain_ne(&d, &dOld)', 1),
                                                     (r'constrMask \|= varToConstr\[v\];', 'ConstrSet_orAssign(&constrMask, &varToConstr[v]);', 1),
                                                     (r'ConstrSet constrMask;', 'ConstrSet constrMask = CONSTRSET_ZERO;', 1)],
      extra_locals={})
    P(CS_C, 'CspSolver::solveRecursive')
    U.passthrough('CONSTRSET_ZERO', 'Domain_ne', 'ConstrSet_orAssign')
    U.raw('#define CONSTRSET_ZERO ((struct ConstrSet){{0, 0, 0}})\n')
    return U
