// Native replay for unit draws (C11): runs the real Search::canClaimDrawRep of /repo on the history list, length, first-new index,
// hash key and half-move clock of a CBMC counterexample; the oracle is the window rule of the unit's own spec text
// (REP_INRANGE / REP_MATCH, compiled as C).  Exit 1 = violation reproduced, 0 = not reproduced, 2 = usage.
#include "search.hpp"
#include "position.hpp"
#include <cstdio>
#include <cstdlib>
#include <vector>
extern "C" int oracle_rep(const unsigned long long* list, int size, int hmc, unsigned long long key, int firstNew);
int main(int argc, char** argv) {
    if (argc < 6) { std::printf("usage: key hmc firstNew size filler idx:val ...\n"); return 2; }
    U64 key = std::strtoull(argv[1], nullptr, 10); int hmc = std::atoi(argv[2]), firstNew = std::atoi(argv[3]), size = std::atoi(argv[4]);
    if (size < 0 || size > 2000000) { std::printf("history list length out of range\n"); return 2; }
    U64 filler = std::strtoull(argv[5], nullptr, 10);     // value of the elements the counterexample leaves unconstrained (different from key)
    std::vector<U64> list(size + 1, filler);
    for (int a = 6; a < argc; a++) { char* c = nullptr; long i = std::strtol(argv[a], &c, 10); if (c && *c == ':' && i >= 0 && i < size) list[i] = std::strtoull(c + 1, nullptr, 10); }
    Position pos;
    pos.hashKey = key;            // -fno-access-control: the rule only reads zobristHash() and getHalfMoveClock()
    pos.halfMoveClock = hmc;
    bool got = Search::canClaimDrawRep(pos, list, size, firstNew);
    int want = oracle_rep((const unsigned long long*)list.data(), size, hmc, key, firstNew);
    std::printf("size=%d hmc=%d firstNew=%d: real canClaimDrawRep = %d; window rule says %d\n", size, hmc, firstNew, (int)got, want);
    std::printf((int)got == want ? "postcondition holds natively\n" : "VIOLATED natively\n");
    return (int)got == want ? 0 : 1;
}
