"""native replay driver for unit timectl: inputs from the trace mirrors in_* and the tunable parameters"""
import subprocess, os, tempfile
def replay(doc, root):
    if doc.get('function_under_contract') != 'EngineControl_computeTimeLimit':
        return {'reproduced': False, 'note': 'no native driver for this function'}
    vals = {}
    for k, v in doc.get('inputs', []):
        vals[k] = v           # last assignment wins
    def g(name, default='0'):
        v = vals.get(name, default)
        return '1' if v in ('TRUE', 'true') else '0' if v in ('FALSE', 'false') else str(v).rstrip('ul')
    args = [g('in_wTime'), g('in_bTime'), g('in_wInc'), g('in_bInc'), g('in_movesToGo'), g('in_depth'), g('in_nodes'), g('in_mate'), g('in_moveTime'),
            g('in_infinite'), g('in_whiteMove'), g('ghost_opt_ponder'), g('timeMaxRemainingMoves', '35'), g('bufferTime', '1000'), g('maxTimeUsage', '400'), g('timePonderHitRate', '35')]
    repo = os.environ.get('VERIF_REPO', '/repo')
    out = tempfile.mkdtemp(prefix='replay_', dir='/var/tmp')
    exe = os.path.join(out, 'timectl_replay')
    L = repo + '/lib/texellib'
    cmd = ['g++', '-std=c++11', '-O1', '-fno-access-control', '-pthread', '-I' + repo + '/app/texel'] + ['-I' + L + d for d in ('', '/util', '/hw', '/tb', '/nn', '/book', '/debug', '/tb/gtb', '/tb/syzygy')] + \
          [os.path.join(root, 'replay', 'timectl_replay.cpp'), repo + '/app/texel/enginecontrol.cpp', repo + '/app/texel/uciprotocol.cpp', repo + '/_build/lib/texellib/libtexellib.a', '-o', exe, '-lrt']
    # the library must contain the current sources: rebuild it first (cheap when nothing changed)
    subprocess.run(['cmake', '--build', repo + '/_build', '--target', 'texellib', '-j8'], capture_output=True)
    c = subprocess.run(cmd, capture_output=True, text=True)
    if c.returncode != 0:
        return {'reproduced': False, 'note': 'native driver did not compile', 'stderr': c.stderr[-1500:]}
    r = subprocess.run([exe] + args, capture_output=True, text=True)
    subprocess.run(['rm', '-rf', out])
    return {'reproduced': r.returncode == 1, 'args': args, 'stdout': r.stdout[-500:], 'rc': r.returncode}
