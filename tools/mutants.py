#!/usr/bin/env python3
"""Kill matrix (DESIGN 2.2 (e)): apply each listed source mutation to a scratch copy of /repo's
lib/ and app/ (outside /repo and /verif), re-extract, and require that a named obligation group fails.
usage: tools/mutants.py <unit> [mutant-name ...]      (prints one line per mutant, JSON summary at the end)"""
import sys, os, re, json, shutil, tempfile, time
HERE = os.path.dirname(os.path.abspath(__file__)); sys.path.insert(0, HERE)
import cxx2c, runcheck, prove


def run_mutants(unit, names=None, jobs=16, log=print):
    m0 = runcheck.load_unit(unit)
    muts = getattr(m0, 'MUTANTS', [])
    out = []
    for mu in muts:
        if names and mu['name'] not in names:
            continue
        scratch = tempfile.mkdtemp(prefix='mut_', dir=os.environ.get('VERIF_TMP', '/var/tmp'))
        t0 = time.time()
        try:
            for d in ('lib', 'app'):
                shutil.copytree(os.path.join('/repo', d), os.path.join(scratch, d))
            fp = os.path.join(scratch, mu['file'])
            txt = open(fp).read()
            new, n = re.subn(mu['pattern'], mu['repl'], txt, count=mu.get('count', 1))
            if n == 0:
                out.append({'mutant': mu['name'], 'result': 'pattern-not-found'})
                log('  mutant %-40s PATTERN NOT FOUND' % mu['name'])
                continue
            open(fp, 'w').write(new)
            old = cxx2c.REPO
            cxx2c.REPO = scratch
            cxx2c.Source.reset()
            try:
                m, U, cfile = runcheck.build_unit(unit, scratch, save=False)
                gs = [g for g in m.GROUPS if g.name in mu['groups']]
                for g in gs:
                    uw = dict(getattr(m, 'UNWIND', {})); uw.update(g.unwindset or {}); g.unwindset = uw
                    g.canary = False
                    if g.loop_contracts:
                        g.no_unwind_funcs = tuple(set(g.no_unwind_funcs) | set(k for k, v in m.CONTRACTS.items() if v.get('loops')))
                res = prove.prove_all(lambda g: cfile, gs, scratch, jobs=jobs, log=lambda s: None)
                killed = [r['group'] for r in res if r['status'] == 'failed']
                und = [r['group'] + ': ' + r['reason'][:100] for r in res if r['status'] == 'undecided']
                verdict = 'killed' if killed else ('undecided' if und else 'SURVIVED')
                out.append({'mutant': mu['name'], 'result': verdict, 'killed_by': killed, 'undecided': und,
                            'failed_obligations': [f['property'] for r in res for f in r['failed']][:5], 'secs': round(time.time() - t0, 1)})
                log('  mutant %-40s %s %s %.0fs' % (mu['name'], verdict, killed or und, time.time() - t0))
            except cxx2c.ExtractError as e:
                out.append({'mutant': mu['name'], 'result': 'extraction-broken', 'why': str(e)[:200]})
                log('  mutant %-40s extraction broken: %s' % (mu['name'], str(e)[:120]))
            finally:
                cxx2c.REPO = old
                cxx2c.Source.reset()
        finally:
            shutil.rmtree(scratch, ignore_errors=True)
    return out


if __name__ == '__main__':
    res = run_mutants(sys.argv[1], sys.argv[2:] or None)
    print(json.dumps({'killed': sum(1 for r in res if r['result'] == 'killed'), 'total': len(res)}))
