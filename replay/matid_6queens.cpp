// Native replay of the C02 finding "MatId::addPiece signed overflow on the sixth black queen":
// compile against /repo with -fsanitize=undefined; exits 1 (UBSan abort) when the defect is present.
#include "material.hpp"
#include <cstdio>
int main() {
    MatId m;
    for (int i = 0; i < 9; i++) m.addPiece(Piece::BQUEEN);      // 9 queens: reachable by 8 promotions
    for (int i = 0; i < 9; i++) m.removePiece(Piece::BQUEEN);
    std::printf("matId after 9x add/remove BQUEEN = %d\n", m());
    return m() != 0;
}
