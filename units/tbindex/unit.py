"""Unit tbindex (C12, partial): the table index of the on-demand tablebase generator (class TBIndex of tb/tbgen.hpp/.cpp):
bit layout, piece squares, the three mirror operations, the 8-fold symmetry reduction of the white king square and its tables."""
import sys, os, re
sys.path.insert(0, os.path.dirname(os.path.dirname(os.path.abspath(__file__))))
from unitlib import Unit, ClassInfo, norm
from cxx2c import ExtractError, find_function
from prove import Group
import common

TBG_H = 'lib/texellib/tb/tbgen.hpp'
TBG_C = 'lib/texellib/tb/tbgen.cpp'


def build():
    U = Unit('tbindex')
    common.square_methods(U)
    ci = U.struct(TBG_H, 'TBIndex', only=['p', 'nWhite', 'idx', 'colBits', 'rowBits'],
                  expect=[('int', 'p', ''), ('int', 'nWhite', ''), ('U32', 'idx', ''), ('U32', 'colBits', ''), ('U32', 'rowBits', '')])
    src = U.src(TBG_C)
    for nm, n in (('symType', 64), ('kingMap', 64), ('kingMapInverse', 10)):
        if not re.search(r'int TBIndex::%s\[%d\];' % (nm, n), src.text):
            raise ExtractError('pin changed: static table TBIndex::%s[%d]' % (nm, n))
        ci.statics[nm] = ('TBIndex_' + nm, 'int[%d]' % n)
    U.raw('int TBIndex_symType[64]; int TBIndex_kingMap[64]; int TBIndex_kingMapInverse[10];   /* static tables of TBIndex (written by staticInitialize) */\n')
    P = U.pull
    P(TBG_C, 'TBIndex::TBIndex', nparams=3)
    for m in ('setIndex', 'swapSide', 'getIndex', 'whiteMove', 'pieceShift', 'mirrorD', 'mirrorX', 'mirrorY'):
        P(TBG_H, 'TBIndex::' + m)
    P(TBG_C, 'TBIndex::getSquare')
    P(TBG_C, 'TBIndex::setSquare')
    P(TBG_C, 'TBIndex::staticInitialize', as_static=True)
    # canonize / sortPieces take the piece types as std::vector<int>: translated as {data, size} (vector indexing only)
    U.raw('struct VecInt { int* data; int size; };\n')
    U.tr.typemap['std::vector<int>'] = 'struct VecInt'
    common.bitboard_consts(U)
    U.tr.variadic_or.add(('BitBoard', 'sqMask'))
    U.pull('lib/texellib/bitBoard.hpp', 'BitBoard::sqMask', nparams=1, as_static=True)
    P(TBG_C, 'TBIndex::sortPieces')
    P(TBG_C, 'TBIndex::canonize')
    return U


SPEC = r'''
int ghost_j;    /* arbitrary piece number */
int ghost_cnt0;
int ghost_g;    /* arbitrary square */
#define SQ_MX(s) ((s) ^ 7)
#define SQ_MY(s) ((s) ^ 0x38)
#define SQ_MD(s) ((((s) & 7) << 3) | (((s) >> 3) & 7))
/* symmetry operation encoded by a symType value: bit 0 mirror X, then bit 1 mirror Y, then bit 2 mirror in the a1-h8 diagonal */
static int spec_sym(int sym, int s) { if (sym & 1) s = SQ_MX(s); if (sym & 2) s = SQ_MY(s); if (sym & 4) s = SQ_MD(s); return s; }
/* a1-d1-d4 triangle */
#define IN_TRIANGLE(s) (((s) & 7) <= 3 && ((s) >> 3) <= ((s) & 7))
/* index layout (tbgen.hpp): piece i >= 1 occupies 6 bits at 6*(p-1-i); side to move at 6p-6; white king (value 0..9) at 6p-5 */
#define SHIFT(ix, i) (6 * ((ix)->p - 1 - (i)))
#define PSQ_W(ix, w, i) ((int)(((w) >> SHIFT(ix, i)) & 0x3f))
#define PSQ(ix, i) PSQ_W(ix, (ix)->idx, i)
#define KIDX_W(ix, w) ((int)(((w) >> (6 * (ix)->p - 5)) & 0xf))
#define SIDE_W(ix, w) ((int)(((w) >> (6 * (ix)->p - 6)) & 1))
static _Bool wf_ix(const struct TBIndex* ix) {
    if (ix->p < 2 || ix->p > 5 || ix->nWhite < 1 || ix->nWhite >= ix->p) return 0;
    U32 cb = 0, rb = 0;
    for (int i = 0; i < 4; i++) if (i < ix->p - 1) { cb |= 0x07u << (6 * i); rb |= 0x38u << (6 * i); }
    return ix->colBits == cb && ix->rowBits == rb && (ix->idx >> (6 * ix->p - 1)) == 0 && KIDX_W(ix, ix->idx) <= 9; }
/* facts about the static tables that setSquare/getSquare rely on (established by staticInitialize, group staticInitialize) */
static _Bool tbl_ok_at(int g) {
    if (g < 0 || g > 63) return 1;
    int sym = TBIndex_symType[g], k = TBIndex_kingMap[g];
    return sym >= 0 && sym <= 7 && k >= 0 && k <= 9 && TBIndex_kingMapInverse[k] == spec_sym(sym, g) && IN_TRIANGLE(spec_sym(sym, g)); }
/* piece types: index 0 is the white king, index nWhite the black king, no other piece has a king type; equal pieces are adjacent */
#define TYPES_SHAPE(ix, t) (__CPROVER_is_fresh(t, sizeof(*t)) && (t)->size == (ix)->p && __CPROVER_is_fresh((t)->data, 5 * sizeof(int)))
static _Bool types_ok(const struct TBIndex* ix, const struct VecInt* t) {
    for (int i = 1; i < 5; i++) if (i < ix->p && i != ix->nWhite && (t->data[i] == t->data[0] || t->data[i] == t->data[ix->nWhite])) return 0;
    return t->data[0] != t->data[ix->nWhite]; }
int ghost_t;    /* arbitrary piece type */
/* number of pieces of type ghost_t standing on square ghost_g (pieces 1..p-1) */
static int spec_count_w(const struct TBIndex* ix, U32 w, const struct VecInt* t) { int n = 0;
    for (int i = 1; i < 5; i++) if (i < ix->p && t->data[i] == ghost_t && PSQ_W(ix, w, i) == ghost_g) n++;
    return n; }
#define GJ_OK(ix) (1 <= ghost_j && ghost_j < (ix)->p)
'''
_S = '__CPROVER_is_fresh(self, sizeof(*self))'
_PRE = [_S, 'wf_ix(self)']
_OLDIDX = '__CPROVER_old(self->idx)'


def _mirror(op):
    return {'requires': _PRE, 'assigns': ['self->idx'],
            'ensures': ['wf_ix(self)',
                        # every piece except the white king is mirrored; king index and side to move are untouched
                        'GJ_OK(self) ==> PSQ(self, ghost_j) == %s(PSQ_W(self, %s, ghost_j))' % (op, _OLDIDX),
                        'KIDX_W(self, self->idx) == KIDX_W(self, %s) && SIDE_W(self, self->idx) == SIDE_W(self, %s)' % (_OLDIDX, _OLDIDX)]}


CONTRACTS = {
    'TBIndex_TBIndex': {'requires': [_S, '1 <= nWhite0 && nWhite0 <= 4 && 1 <= nBlack && nBlack <= 4 && nWhite0 + nBlack <= 5', '(index >> (6 * (nWhite0 + nBlack) - 1)) == 0', '((index >> (6 * (nWhite0 + nBlack) - 5)) & 0xf) <= 9'],
                        'assigns': ['*self'], 'ensures': ['wf_ix(self)', 'self->idx == index && self->p == nWhite0 + nBlack && self->nWhite == nWhite0']},
    'TBIndex_pieceShift': {'requires': [_S, '2 <= self->p && self->p <= 5', '1 <= pieceNo && pieceNo < self->p'], 'assigns': [],
                           'ensures': ['__CPROVER_return_value == SHIFT(self, pieceNo)', '0 <= __CPROVER_return_value && __CPROVER_return_value <= 18']},
    'TBIndex_swapSide': {'requires': _PRE, 'assigns': ['self->idx'],
                         'ensures': ['wf_ix(self)', 'SIDE_W(self, self->idx) == 1 - SIDE_W(self, %s)' % _OLDIDX, '(self->idx | (1u << (6 * self->p - 6))) == (%s | (1u << (6 * self->p - 6)))' % _OLDIDX]},
    'TBIndex_whiteMove': {'requires': _PRE, 'assigns': [], 'ensures': ['__CPROVER_return_value == (SIDE_W(self, self->idx) != 0)']},
    'TBIndex_mirrorX': _mirror('SQ_MX'),
    'TBIndex_mirrorY': _mirror('SQ_MY'),
    'TBIndex_mirrorD': _mirror('SQ_MD'),
    'TBIndex_getSquare': {'requires': _PRE + ['0 <= pieceNo && pieceNo < self->p'], 'assigns': [],
                          'ensures': ['pieceNo >= 1 ==> __CPROVER_return_value == PSQ(self, pieceNo)',
                                      'pieceNo == 0 ==> __CPROVER_return_value == TBIndex_kingMapInverse[KIDX_W(self, self->idx)]']},
    'TBIndex_setSquare': {
        'requires': _PRE + ['0 <= pieceNo && pieceNo < self->p', '0 <= sq && sq < 64', 'tbl_ok_at(sq)'],
        'assigns': ['self->idx'],
        'ensures': ['wf_ix(self)', 'SIDE_W(self, self->idx) == SIDE_W(self, %s)' % _OLDIDX,
                    # ordinary piece: only its own square changes
                    '(pieceNo != 0 && pieceNo != self->nWhite && GJ_OK(self)) ==> PSQ(self, ghost_j) == (ghost_j == pieceNo ? sq : PSQ_W(self, %s, ghost_j))' % _OLDIDX,
                    # black king: captured pieces (parked on the black king square) move along with it
                    '(pieceNo == self->nWhite && GJ_OK(self)) ==> PSQ(self, ghost_j) == (PSQ_W(self, %s, ghost_j) == PSQ_W(self, %s, self->nWhite) ? sq : PSQ_W(self, %s, ghost_j))' % (_OLDIDX, _OLDIDX, _OLDIDX),
                    'pieceNo != 0 ==> KIDX_W(self, self->idx) == KIDX_W(self, %s)' % _OLDIDX,
                    # white king: it is mapped into the a1-d1-d4 triangle and EVERY other piece undergoes the same symmetry operation
                    '(pieceNo == 0 && GJ_OK(self)) ==> PSQ(self, ghost_j) == spec_sym(TBIndex_symType[sq], PSQ_W(self, %s, ghost_j))' % _OLDIDX,
                    'pieceNo == 0 ==> (TBIndex_kingMapInverse[KIDX_W(self, self->idx)] == spec_sym(TBIndex_symType[sq], sq) && IN_TRIANGLE(spec_sym(TBIndex_symType[sq], sq)))'],
    },
    'TBIndex_sortPieces': {
        'requires': _PRE + ['TYPES_SHAPE(self, pieceTypes)', 'types_ok(self, pieceTypes)', 'ghost_cnt0 == spec_count_w(self, self->idx, pieceTypes)'],
        'assigns': ['self->idx'],
        'ensures': ['wf_ix(self)', 'KIDX_W(self, self->idx) == KIDX_W(self, %s) && SIDE_W(self, self->idx) == SIDE_W(self, %s)' % (_OLDIDX, _OLDIDX),
                    # the pieces of every type still stand on the same squares (as a multiset) ...
                    'spec_count_w(self, self->idx, pieceTypes) == ghost_cnt0',
                    # ... and neighbouring equal pieces are in ascending square order
                    '(GJ_OK(self) && ghost_j + 1 < self->p && pieceTypes->data[ghost_j] == pieceTypes->data[ghost_j + 1]) ==> PSQ(self, ghost_j) <= PSQ(self, ghost_j + 1)'],
    },
    'TBIndex_staticInitialize': {
        'requires': ['1'], 'assigns': ['__CPROVER_object_whole(TBIndex_symType)', '__CPROVER_object_whole(TBIndex_kingMap)', '__CPROVER_object_whole(TBIndex_kingMapInverse)'],
        # for every square: the recorded symmetry maps it into the triangle, and kingMapInverse[kingMap[sq]] is that image
        'ensures': ['tbl_ok_at(ghost_g)'],
    },
}
HARNESS = r'''
#ifdef CANARY
#define CANARY_POINT __CPROVER_assert(0, "canary: harness end reachable")
#else
#define CANARY_POINT
#endif
int nondet_int(void); unsigned nondet_uint(void);
static void hv(void) { ghost_j = nondet_int(); ghost_g = nondet_int(); __CPROVER_havoc_object(TBIndex_symType); __CPROVER_havoc_object(TBIndex_kingMap); __CPROVER_havoc_object(TBIndex_kingMapInverse); }
void h_ctor(void) { struct TBIndex* ix; int a = nondet_int(), b = nondet_int(); U32 i = nondet_uint(); hv(); TBIndex_TBIndex(ix, a, b, i); CANARY_POINT; }
void h_pieceShift(void) { struct TBIndex* ix; int a = nondet_int(); hv(); TBIndex_pieceShift(ix, a); CANARY_POINT; }
void h_swapSide(void) { struct TBIndex* ix; hv(); TBIndex_swapSide(ix); CANARY_POINT; }
void h_whiteMove(void) { struct TBIndex* ix; hv(); TBIndex_whiteMove(ix); CANARY_POINT; }
void h_mirrorX(void) { struct TBIndex* ix; hv(); TBIndex_mirrorX(ix); CANARY_POINT; }
void h_mirrorY(void) { struct TBIndex* ix; hv(); TBIndex_mirrorY(ix); CANARY_POINT; }
void h_mirrorD(void) { struct TBIndex* ix; hv(); TBIndex_mirrorD(ix); CANARY_POINT; }
void h_getSquare(void) { struct TBIndex* ix; int a = nondet_int(); hv(); TBIndex_getSquare(ix, a); CANARY_POINT; }
void h_setSquare(void) { struct TBIndex* ix; int a = nondet_int(), s = nondet_int(); hv(); TBIndex_setSquare(ix, a, s); CANARY_POINT; }
void h_sortPieces(void) { struct TBIndex* ix; struct VecInt* t; hv(); ghost_t = nondet_int(); ghost_cnt0 = nondet_int(); TBIndex_sortPieces(ix, t); CANARY_POINT; }
/* symmetry lemma (real bodies): two indices that are mirror images in the a1-h8 diagonal, white king on that diagonal, get the same canonical index */
void h_lemma_canon_diag(void) {
    struct TBIndex a, b; struct VecInt t; int td[5]; _Bool dup = (nondet_int() != 0);
    hv(); __CPROVER_havoc_object(&a); __CPROVER_havoc_object(td); t.data = td; t.size = a.p;
    __CPROVER_assume(wf_ix(&a) && types_ok(&a, &t) && tbl_ok_at(ghost_g));
    int k = KIDX_W(&a, a.idx); __CPROVER_assume(0 <= k && k <= 9 && TBIndex_kingMapInverse[k] == ghost_g && (ghost_g == 0 || ghost_g == 9 || ghost_g == 18 || ghost_g == 27));
    /* without equal pieces the flag is false; with equal pieces the generator passes true */
    _Bool has_dup = 0; for (int i = 1; i < 5; i++) for (int j = i + 1; j < 5; j++) if (j < a.p && td[i] == td[j]) has_dup = 1;
    __CPROVER_assume(dup == has_dup);
    b = a; TBIndex_mirrorD(&b);
    TBIndex_canonize(&a, &t, dup); TBIndex_canonize(&b, &t, dup);
    __CPROVER_assert(a.idx == b.idx, "canonize: diagonal mirror images get the same index");
    CANARY_POINT; }
/* order lemma (real bodies): two indices that describe the same position with two equal pieces listed in the other order get the same canonical index */
void h_lemma_canon_perm(void) {
    struct TBIndex a, b; struct VecInt t; int td[5]; int i = nondet_int(), j = nondet_int();
    hv(); __CPROVER_havoc_object(&a); __CPROVER_havoc_object(td); t.data = td; t.size = a.p;
    __CPROVER_assume(wf_ix(&a) && types_ok(&a, &t) && tbl_ok_at(ghost_g));
    int k = KIDX_W(&a, a.idx); __CPROVER_assume(0 <= k && k <= 9 && TBIndex_kingMapInverse[k] == ghost_g && ghost_g >= 0 && ghost_g < 64);
    __CPROVER_assume(1 <= i && i < j && j < a.p && td[i] == td[j]);
    /* equal pieces are listed next to each other (TBPosition's constructor groups the piece types) */
    __CPROVER_assume((td[1] != td[3] || td[2] == td[1]) && (td[1] != td[4] || (td[2] == td[1] && td[3] == td[1])) && (td[2] != td[4] || td[3] == td[2]));
    b = a;
    /* b: squares of pieces i and j exchanged (plain bit operations on the index; same position) */
    { U32 si = (b.idx >> SHIFT(&b, i)) & 0x3f, sj = (b.idx >> SHIFT(&b, j)) & 0x3f;
      b.idx = (b.idx & ~(0x3fu << SHIFT(&b, i)) & ~(0x3fu << SHIFT(&b, j))) | (sj << SHIFT(&b, i)) | (si << SHIFT(&b, j)); }
    TBIndex_canonize(&a, &t, 1); TBIndex_canonize(&b, &t, 1);
    __CPROVER_assert(a.idx == b.idx, "canonize: the order in which equal pieces are listed does not matter");
    CANARY_POINT; }
void h_staticInit(void) { hv(); TBIndex_staticInitialize(); CANARY_POINT; }
'''
UNWIND = {'h_lemma_canon_perm': 5, 'types_ok': 5, 'spec_count_w': 5, 'TBIndex_sortPieces': 5, 'h_lemma_canon_diag': 5, 'wf_ix': 5, 'TBIndex_TBIndex': 5, 'TBIndex_setSquare': 5, 'TBIndex_staticInitialize': 65}
GROUPS = [
    Group('ctor', 'h_ctor', enforce='TBIndex_TBIndex', min_props=3),
    Group('pieceShift', 'h_pieceShift', enforce='TBIndex_pieceShift', min_props=2),
    Group('swapSide', 'h_swapSide', enforce='TBIndex_swapSide', min_props=2),
    Group('whiteMove', 'h_whiteMove', enforce='TBIndex_whiteMove', min_props=2),
    Group('mirrorX', 'h_mirrorX', enforce='TBIndex_mirrorX', min_props=2),
    Group('mirrorY', 'h_mirrorY', enforce='TBIndex_mirrorY', min_props=2),
    Group('mirrorD', 'h_mirrorD', enforce='TBIndex_mirrorD', min_props=2),
    Group('getSquare', 'h_getSquare', enforce='TBIndex_getSquare', replace=('TBIndex_pieceShift',), min_props=3),
    Group('setSquare', 'h_setSquare', enforce='TBIndex_setSquare', replace=('TBIndex_pieceShift', 'TBIndex_getSquare', 'TBIndex_mirrorX', 'TBIndex_mirrorY', 'TBIndex_mirrorD'), min_props=5, timeout=3600),
    Group('sortPieces', 'h_sortPieces', enforce='TBIndex_sortPieces', min_props=5, timeout=1800),
    Group('lemma_canon_diag', 'h_lemma_canon_diag', min_props=5, timeout=10800, tier='thorough'),   # 13 min
    Group('lemma_canon_perm', 'h_lemma_canon_perm', min_props=5, timeout=10800, tier='thorough'),
    Group('staticInitialize', 'h_staticInit', enforce='TBIndex_staticInitialize', min_props=5, timeout=1800,
          unwindset={'TBIndex_staticInitialize': [65, 65, 8]}),
]
PROPERTIES = {'C12': [g.name for g in GROUPS]}
ASSUMPTIONS = {'C12': ['table index of up to 5 men (p <= 5: the shifts of setSquare stay inside 32 bits); the on-demand tables have at most 4',
                       'setSquare/getSquare use the facts about symType/kingMap/kingMapInverse that group staticInitialize proves for every square']}
NOT_DECIDED = {'C12': ['TBPosition (move and un-move generation on indices, lambdas), the retrograde generation itself: exactness of the generated distances is NOT decided']}

MUTANTS = [
    dict(name='mirrorD_shift', file='lib/texellib/tb/tbgen.hpp', pattern=r'idx = \(\(idx & colBits\) << 3\) \| \(\(idx & rowBits\) >> 3\)', repl='idx = ((idx & colBits) << 3) | ((idx & rowBits) >> 2)', groups=['mirrorD']),
    dict(name='mirrorX_rows', file='lib/texellib/tb/tbgen.hpp', pattern=r'    idx \^= colBits;', repl='    idx ^= rowBits;', groups=['mirrorX']),
    dict(name='ctor_colbits_all_pieces', file='lib/texellib/tb/tbgen.cpp', pattern=r'for \(int i = 0; i < p-1; i\+\+\) \{\n        colBits', repl='for (int i = 0; i < p; i++) {\n        colBits', groups=['ctor']),
    dict(name='setSquare_sym_order', file='lib/texellib/tb/tbgen.cpp', pattern=r'        if \(sym & 1\)\n            mirrorX\(\);\n        if \(sym & 2\)\n            mirrorY\(\);\n        if \(sym & 4\)\n            mirrorD\(\);',
         repl='        if (sym & 4)\n            mirrorD();\n        if (sym & 1)\n            mirrorX();\n        if (sym & 2)\n            mirrorY();', groups=['setSquare']),
    dict(name='setSquare_bking_only_itself', file='lib/texellib/tb/tbgen.cpp', pattern=r'for \(int i = 1; i < p; i\+\+\) \{\n            if \(getSquare\(i\) == oldSq\) \{', repl='for (int i = nWhite; i <= nWhite; i++) {\n            if (getSquare(i) == oldSq) {', groups=['setSquare']),
    # (an earlier mutant 'diagonal squares also get the mirror-D bit' survived: it is equivalent - a diagonal square is its own mirror image)
    dict(name='staticInit_row_threshold', file='lib/texellib/tb/tbgen.cpp', pattern=r'        if \(mSq.getY\(\) >= 4\) \{\n            sym \|= 2;', repl='        if (mSq.getY() > 4) {\n            sym |= 2;', groups=['staticInitialize']),
    dict(name='sortPieces_descending', file='lib/texellib/tb/tbgen.cpp', pattern=r'if \(sqJ.asInt\(\) < sqI.asInt\(\)\) \{', repl='if (sqJ.asInt() > sqI.asInt()) {', groups=['sortPieces']),
    dict(name='sortPieces_loses_piece', file='lib/texellib/tb/tbgen.cpp', pattern=r'                setSquare\(i, sqJ\);\n                setSquare\(j, sqI\);', repl='                setSquare(i, sqJ);\n                setSquare(j, sqJ);', groups=['sortPieces']),
    dict(name='swapSide_bit', file='lib/texellib/tb/tbgen.hpp', pattern=r'idx \^= 1ULL << \(6\*p-6\);', repl='idx ^= 1ULL << (6*p-5);', groups=['swapSide']),
]
