"""Unit draws (C11): repetition test, 50-move test, the draw tests at the head of negaScout (fragment),
dead-material predicate."""
import sys, os
sys.path.insert(0, os.path.dirname(os.path.dirname(os.path.abspath(__file__))))
from unitlib import Unit, ClassInfo
from prove import Group
import common
from common import POS_H, BB_H

S_H = 'lib/texellib/search.hpp'
S_C = 'lib/texellib/search.cpp'
G_H = 'lib/texellib/game.hpp'
G_C = 'lib/texellib/game.cpp'
CONST_H = 'lib/texellib/constants.hpp'


def build():
    U = Unit('draws')
    common.pieces(U)
    common.bitboard_consts(U)
    common.bit_primitives(U)
    U.consts(CONST_H, 'SearchConst', ['MATE0'])
    U.consts(CONST_H, 'TType', ['T_EMPTY', 'T_EXACT', 'T_GE', 'T_LE'])
    U.struct(POS_H, 'Position', bases=('PositionBase',), only=['pieceTypeBB_', 'whiteBB_', 'blackBB_', 'halfMoveClock', 'hashKey'])
    U.tr.variadic_or.add(('Position', 'pieceTypeBB'))
    for m, n in (('getHalfMoveClock', 0), ('zobristHash', 0), ('pieceTypeBB', 1)):
        U.pull(POS_H, 'Position::' + m, nparams=n)
    U.raw('struct VecU64 { U64* data; int size; };   /* std::vector<U64> that is only indexed (DESIGN 2.1) */\n')
    U.tr.typemap['std::vector<U64>'] = 'struct VecU64'
    U.raw('struct Search { int dummy; };\n')
    U.tr.add_class(ClassInfo('Search'))
    U.pull(S_H, 'Search::canClaimDrawRep', as_static=True)
    U.pull(S_H, 'Search::canClaimDraw50', as_static=True)
    # draw tests at the head of negaScout: statements between the two anchors
    U.raw('struct MoveList { int size; };   /* only the size is used by the fragment */\n')
    ml = ClassInfo('MoveList'); ml.fields = {'size': ('int', '')}; ml.default_init = '{0}'
    U.tr.add_class(ml)
    U.raw('int ghost_nlegal;   /* number of legal moves of the position (MoveGen::pseudoLegalMoves + removeIllegal) */\n'
          '#define GHOST_FALLTHROUGH 123456789   /* the fragment did not return: the search goes on */\n')
    U.stub('ghost_logAndReturn', 'int ghost_logAndReturn(int score, int tType)')
    U.stub('ghost_legal_moves', 'void ghost_legal_moves(struct MoveList* moves)')
    U.passthrough('GHOST_FALLTHROUGH')
    U.fragment(S_C, 'Search_negaScout_drawTests', r'if \(canClaimDraw50\(pos\)\) \{', r'TranspositionTable::TTEntry ent;\s*const bool singularSearch',
               params=[('Position', 'pos', True), ('std::vector<U64>', 'posHashList', True), ('int', 'posHashListSize', False),
                       ('int', 'posHashFirstNew', False), ('bool', 'inCheck', False), ('int', 'ply', False)],
               ret='int', cls='Search', is_static=True, using_ns=('SearchConst',), epilogue='\n    return GHOST_FALLTHROUGH;\n',
               rules=[(r'return logAndReturn\(', 'return ghost_logAndReturn(', 3),
                      (r'MoveGen::pseudoLegalMoves\(pos, moves\);\s*MoveGen::removeIllegal\(pos, moves\);', 'ghost_legal_moves(&moves);', 1)])
    U.raw('struct Game;\n')
    U.struct(G_H, 'Game', only=['pos'])
    U.pull(G_C, 'Game::insufficientMaterial')
    return U


SPEC = common.BIT_SPEC + r'''
int ghost_j1, ghost_j2;            /* arbitrary history indices chosen by the harness (stand for "for all") */
int ghost_m1, ghost_m2;            /* witnesses recorded by ghost code: indices of the first and second match found */
/* index k is examined by the repetition rule: same side to move (same parity as the current position, which
   would be stored at index size), at least 4 plies back, not older than the last irreversible move */
#define REP_INRANGE(k, size, hmc) ((k) >= 0 && (k) >= (size) - (hmc) && (k) <= (size) - 4 && (((size) - (k)) % 2) == 0)
#define REP_MATCH(k, list, h) ((list)->data[k] == (h))
'''

CONTRACTS = dict(common.BIT_CONTRACTS)
CONTRACTS.update({
    'Search_canClaimDrawRep': {
        'requires': ['__CPROVER_is_fresh(pos, sizeof(*pos))', '__CPROVER_is_fresh(posHashList, sizeof(*posHashList))',
                     '0 <= posHashListSize && posHashListSize <= 1000000', '__CPROVER_is_fresh(posHashList->data, (posHashListSize + 1) * sizeof(U64))',
                     '0 <= pos->halfMoveClock', '0 <= posHashFirstNew', 'ghost_m1 == -1 && ghost_m2 == -1'],
        'assigns': ['ghost_m1, ghost_m2'],
        'ensures': [
            # a claimed repetition is real: one earlier occurrence inside the search tree, or two occurrences anywhere in the window
            '__CPROVER_return_value ==> (REP_INRANGE(ghost_m1, posHashListSize, pos->halfMoveClock) && REP_MATCH(ghost_m1, posHashList, pos->hashKey) && (ghost_m1 >= posHashFirstNew || (REP_INRANGE(ghost_m2, posHashListSize, pos->halfMoveClock) && REP_MATCH(ghost_m2, posHashList, pos->hashKey) && ghost_m2 != ghost_m1)))',
            # no repetition is missed: for arbitrary indices j1, j2 of the window
            '(!__CPROVER_return_value && REP_INRANGE(ghost_j1, posHashListSize, pos->halfMoveClock) && REP_MATCH(ghost_j1, posHashList, pos->hashKey)) ==> ghost_j1 < posHashFirstNew',
            '(!__CPROVER_return_value && REP_INRANGE(ghost_j1, posHashListSize, pos->halfMoveClock) && REP_MATCH(ghost_j1, posHashList, pos->hashKey) && REP_INRANGE(ghost_j2, posHashListSize, pos->halfMoveClock) && REP_MATCH(ghost_j2, posHashList, pos->hashKey)) ==> ghost_j1 == ghost_j2',
        ],
        'ghost_at': [(r'reps\+\+;', 'if (ghost_m1 == -1) ghost_m1 = i; else ghost_m2 = i;')],
        'loops': {0: {
            'assigns': 'i, reps, ghost_m1, ghost_m2',
            'invariant': [
                'i <= posHashListSize - 4 && i >= stop - 2 && ((posHashListSize - i) % 2) == 0 && stop >= 0 && stop >= posHashListSize - pos->halfMoveClock && (stop == 0 || stop == posHashListSize - pos->halfMoveClock)',
                '0 <= reps && reps <= 1',
                'reps == 0 ==> (ghost_m1 == -1 && ghost_m2 == -1)',
                'reps == 1 ==> (ghost_m2 == -1 && ghost_m1 > i && REP_INRANGE(ghost_m1, posHashListSize, pos->halfMoveClock) && REP_MATCH(ghost_m1, posHashList, pos->hashKey) && ghost_m1 < posHashFirstNew)',
                # every match already visited is the recorded one
                '(ghost_j1 > i && REP_INRANGE(ghost_j1, posHashListSize, pos->halfMoveClock) && REP_MATCH(ghost_j1, posHashList, pos->hashKey)) ==> (reps == 1 && ghost_j1 == ghost_m1)',
                '(ghost_j2 > i && REP_INRANGE(ghost_j2, posHashListSize, pos->halfMoveClock) && REP_MATCH(ghost_j2, posHashList, pos->hashKey)) ==> (reps == 1 && ghost_j2 == ghost_m1)',
            ],
            'decreases': 'i + 4',
        }},
    },
    'Search_canClaimDraw50': {
        'requires': ['__CPROVER_is_fresh(pos, sizeof(*pos))'],
        'assigns': [],
        'ensures': ['__CPROVER_return_value == (pos->halfMoveClock >= 100)'],
    },
    'ghost_logAndReturn': {   # assumed: at the draw tests no tablebase bound is set yet (tbScoreType == T_EMPTY), so the lambda returns its score
        'assigns': [], 'ensures': ['__CPROVER_return_value == score'],
    },
    'ghost_legal_moves': {    # assumed: stands for MoveGen::pseudoLegalMoves + removeIllegal (C01); only the count is used
        'requires': ['__CPROVER_is_fresh(moves, sizeof(*moves))'],
        'assigns': ['moves->size'], 'ensures': ['moves->size == ghost_nlegal'],
    },
    'Search_negaScout_drawTests': {
        'requires': ['__CPROVER_is_fresh(pos, sizeof(*pos))', '__CPROVER_is_fresh(posHashList, sizeof(*posHashList))',
                     '0 <= posHashListSize && posHashListSize <= 1000000', '__CPROVER_is_fresh(posHashList->data, (posHashListSize + 1) * sizeof(U64))',
                     '0 <= pos->halfMoveClock', '0 <= posHashFirstNew', '0 <= ply && ply <= 1000', '0 <= ghost_nlegal && ghost_nlegal <= 256',
                     'ghost_m1 == -1 && ghost_m2 == -1'],
        'assigns': ['ghost_m1, ghost_m2'],
        'ensures': [
            # 50 moves without capture or pawn move: exactly a draw, unless the side to move is checkmated
            '(pos->halfMoveClock >= 100 && !(inCheck && ghost_nlegal == 0)) ==> __CPROVER_return_value == 0',
            '(pos->halfMoveClock >= 100 && inCheck && ghost_nlegal == 0) ==> __CPROVER_return_value == -(SearchConst_MATE0 - (ply + 1))',
            # otherwise a repetition scores exactly a draw, and nothing else returns here
            '(pos->halfMoveClock < 100) ==> (__CPROVER_return_value == 0 || __CPROVER_return_value == GHOST_FALLTHROUGH)',
            '(pos->halfMoveClock < 100 && __CPROVER_return_value == GHOST_FALLTHROUGH && REP_INRANGE(ghost_j1, posHashListSize, pos->halfMoveClock) && REP_MATCH(ghost_j1, posHashList, pos->hashKey)) ==> ghost_j1 < posHashFirstNew',
            '(pos->halfMoveClock < 100 && __CPROVER_return_value == 0) ==> (REP_INRANGE(ghost_m1, posHashListSize, pos->halfMoveClock) && REP_MATCH(ghost_m1, posHashList, pos->hashKey))',
        ],
    },
    'Game_insufficientMaterial': {
        'requires': ['__CPROVER_is_fresh(self, sizeof(*self))'],
        'assigns': [],
        'ensures': [
            # dead material: no queen, rook or pawn, and (at most one minor piece, or only bishops all on one colour)
            '__CPROVER_return_value == ( (self->pos.pieceTypeBB_[Piece_WQUEEN] | self->pos.pieceTypeBB_[Piece_BQUEEN] | self->pos.pieceTypeBB_[Piece_WROOK] | self->pos.pieceTypeBB_[Piece_BROOK] | self->pos.pieceTypeBB_[Piece_WPAWN] | self->pos.pieceTypeBB_[Piece_BPAWN]) == 0'
            ' && ( spec_popcount(self->pos.pieceTypeBB_[Piece_WBISHOP]) + spec_popcount(self->pos.pieceTypeBB_[Piece_WKNIGHT]) + spec_popcount(self->pos.pieceTypeBB_[Piece_BBISHOP]) + spec_popcount(self->pos.pieceTypeBB_[Piece_BKNIGHT]) <= 1'
            ' || ( (self->pos.pieceTypeBB_[Piece_WKNIGHT] | self->pos.pieceTypeBB_[Piece_BKNIGHT]) == 0 && ( ((self->pos.pieceTypeBB_[Piece_WBISHOP] | self->pos.pieceTypeBB_[Piece_BBISHOP]) & 0xAA55AA55AA55AA55ULL) == 0 || ((self->pos.pieceTypeBB_[Piece_WBISHOP] | self->pos.pieceTypeBB_[Piece_BBISHOP]) & 0x55AA55AA55AA55AAULL) == 0 ) ) ) )',
        ],
    },
})

HARNESS = r'''
#ifdef CANARY
#define CANARY_POINT __CPROVER_assert(0, "canary: harness end reachable")
#else
#define CANARY_POINT
#endif
int nondet_int(void);
static void havoc_ghosts(void) { ghost_j1 = nondet_int(); ghost_j2 = nondet_int(); ghost_m1 = nondet_int(); ghost_m2 = nondet_int(); ghost_nlegal = nondet_int(); }
void h_rep(void) { struct Position* p; struct VecU64* l; int n, f; havoc_ghosts(); Search_canClaimDrawRep(p, l, n, f); CANARY_POINT; }
void h_d50(void) { struct Position* p; havoc_ghosts(); Search_canClaimDraw50(p); CANARY_POINT; }
void h_drawTests(void) { struct Position* p; struct VecU64* l; int n, f, ply; _Bool ic = (nondet_int() != 0); havoc_ghosts();
    Search_negaScout_drawTests(p, l, n, f, ic, ply); CANARY_POINT; }
void h_insuff(void) { struct Game* g; havoc_ghosts(); Game_insufficientMaterial(g); CANARY_POINT; }
'''
UNWIND = {'spec_popcount': 65, 'spec_lowest': 65, 'spec_highest': 65}
GROUPS = [
    Group('canClaimDrawRep', 'h_rep', enforce='Search_canClaimDrawRep', loop_contracts=True, min_props=20, expect_loop_props=1),
    Group('canClaimDraw50', 'h_d50', enforce='Search_canClaimDraw50', min_props=2),
    Group('negaScout_drawTests', 'h_drawTests', enforce='Search_negaScout_drawTests',
          replace=('Search_canClaimDrawRep', 'Search_canClaimDraw50', 'ghost_logAndReturn', 'ghost_legal_moves'), min_props=10),
    Group('insufficientMaterial', 'h_insuff', enforce='Game_insufficientMaterial', replace=('BitBoard_bitCount',), min_props=3),
]
PROPERTIES = {'C11': [g.name for g in GROUPS]}
ASSUMPTIONS = {'C11': [
    'assumed contract ghost_logAndReturn: at the draw tests of negaScout no tablebase bound has been set yet, so logAndReturn(score, type) returns score',
    'assumed contract ghost_legal_moves: stands for MoveGen::pseudoLegalMoves + removeIllegal (subject of C01); only the number of legal moves is used',
    'A-ZOBRIST: equal Zobrist hash is taken as "same position" (hash collisions are not modelled); history indices carry the parity of the side to move',
]}
NOT_DECIDED = {'C11': ['console game mode: Game::handleDrawCmd text commands and getGameState ordering (std::string code)',
                       'construction of the history list in EngineControl::setupPosition (std::vector growth) - not built yet']}

MUTANTS = [
    dict(name='rep_window_off_by_two', file='lib/texellib/search.hpp', pattern=r'for \(int i = posHashListSize - 4; i >= stop; i -= 2\)', repl='for (int i = posHashListSize - 6; i >= stop; i -= 2)', groups=['canClaimDrawRep']),
    dict(name='rep_stop_strict', file='lib/texellib/search.hpp', pattern=r'i >= stop; i -= 2', repl='i > stop; i -= 2', groups=['canClaimDrawRep']),
    dict(name='rep_step_one', file='lib/texellib/search.hpp', pattern=r'i >= stop; i -= 2', repl='i >= stop; i -= 1', groups=['canClaimDrawRep']),
    dict(name='rep_firstnew_strict', file='lib/texellib/search.hpp', pattern=r'\(i >= posHashFirstNew\) \|\| \(reps >= 2\)', repl='(i > posHashFirstNew) || (reps >= 2)', groups=['canClaimDrawRep']),
    dict(name='rep_three_needed', file='lib/texellib/search.hpp', pattern=r'\(reps >= 2\)', repl='(reps >= 3)', groups=['canClaimDrawRep']),
    dict(name='rep_clock_plus_one', file='lib/texellib/search.hpp', pattern=r'posHashListSize - pos.getHalfMoveClock\(\)\)', repl='posHashListSize - pos.getHalfMoveClock() + 1)', groups=['canClaimDrawRep']),
    dict(name='draw50_99', file='lib/texellib/search.hpp', pattern=r'pos.getHalfMoveClock\(\) >= 100', repl='pos.getHalfMoveClock() >= 99', groups=['canClaimDraw50']),
    dict(name='draw50_gt', file='lib/texellib/search.hpp', pattern=r'pos.getHalfMoveClock\(\) >= 100', repl='pos.getHalfMoveClock() > 100', groups=['canClaimDraw50']),
    dict(name='draw50_mate_ignored', file='lib/texellib/search.cpp', pattern=r'if \(moves.size == 0\) \{            // Can.t claim draw if already check mated.', repl='if (moves.size == 0 && false) {', groups=['negaScout_drawTests']),
    dict(name='draw50_mate_without_check', file='lib/texellib/search.cpp', pattern=r'        if \(inCheck\) \{\n            MoveList moves;', repl='        if (true) {\n            MoveList moves;', groups=['negaScout_drawTests']),
    dict(name='rep_before_50', file='lib/texellib/search.cpp', pattern=r'return logAndReturn\(-\(MATE0-\(ply\+1\)\), TType::T_EXACT\);\n            \}', repl='return logAndReturn(-(MATE0-ply), TType::T_EXACT);\n            }', groups=['negaScout_drawTests']),
    dict(name='insuff_two_minors', file='lib/texellib/game.cpp', pattern=r'wb \+ wn \+ bb \+ bn <= 1', repl='wb + wn + bb + bn <= 2', groups=['insufficientMaterial']),
    dict(name='insuff_ignores_black_rook', file='lib/texellib/game.cpp', pattern=r'    if \(pos.pieceTypeBB\(Piece::BROOK\)  != 0\) return false;\n', repl='', groups=['insufficientMaterial']),
    dict(name='insuff_bishop_colour', file='lib/texellib/game.cpp', pattern=r'\(bMask & BitBoard::maskLightSq\) == 0', repl='(bMask & BitBoard::maskDarkSq) != 0', groups=['insufficientMaterial']),
]
