"""Shared building blocks (DESIGN section 3): piece constants, Square methods, bit primitives,
Move/UndoInfo/Position structs and the chess spec (from-scratch views, well-formedness)."""
import re
from unitlib import Unit, norm
from cxx2c import ExtractError, Source, find_function

PIECE_H = 'lib/texellib/piece.hpp'
SQ_H = 'lib/texellib/square.hpp'
BB_H = 'lib/texellib/bitBoard.hpp'
BB_C = 'lib/texellib/bitBoard.cpp'
MOVE_H = 'lib/texellib/move.hpp'
UNDO_H = 'lib/texellib/undoInfo.hpp'
POS_H = 'lib/texellib/position.hpp'
POS_C = 'lib/texellib/position.cpp'
MAT_H = 'lib/texellib/material.hpp'
PAR_H = 'lib/texellib/parameters.hpp'

PIECES = ['EMPTY', 'WKING', 'WQUEEN', 'WROOK', 'WBISHOP', 'WKNIGHT', 'WPAWN',
          'BKING', 'BQUEEN', 'BROOK', 'BBISHOP', 'BKNIGHT', 'BPAWN', 'nPieceTypes']


def pieces(U):
    U.consts(PIECE_H, 'Piece', PIECES)
    U.tr.typemap['Piece::Type'] = 'int'
    # Piece's static helpers use the enumerators unqualified
    for f, n in (('isWhite', 1), ('makeWhite', 1), ('makeBlack', 1)):
        U.pull(PIECE_H, 'Piece::' + f, nparams=n, self_cls=None)


def square_methods(U):
    for f in ('getX', 'getY', 'mirrorX', 'mirrorY', 'rot180', 'isDark'):
        U.pull(SQ_H, 'Square::' + f, nparams=0)


def bitboard_consts(U):
    names = ['maskFileA', 'maskFileB', 'maskFileC', 'maskFileD', 'maskFileE', 'maskFileF', 'maskFileG', 'maskFileH',
             'maskAToGFiles', 'maskBToHFiles', 'maskAToFFiles', 'maskCToHFiles', 'maskAToDFiles', 'maskEToHFiles',
             'maskRow1', 'maskRow2', 'maskRow3', 'maskRow4', 'maskRow5', 'maskRow6', 'maskRow7', 'maskRow8',
             'maskRow1Row8', 'maskDarkSq', 'maskLightSq', 'maskCorners']
    if 'BitBoard' not in U.tr.classes:
        from unitlib import ClassInfo
        ci = ClassInfo('BitBoard'); ci.src = U.src(BB_H); U.tr.add_class(ci)
    U.consts(BB_H, 'BitBoard', names)
    U.in_class_scope('BitBoard', names)


def bit_primitives(U, with_last=False):
    """BitUtil::firstBit/extractBit/bitCount (+lastBit) and BitBoard wrappers, generic (non-intrinsic)
    variants as selected by the build (no USE_CTZ / USE_POPCNT in _build)."""
    from unitlib import ClassInfo
    if 'BitUtil' not in U.tr.classes:
        ci = ClassInfo('BitUtil'); ci.src = U.src(BB_H); U.tr.add_class(ci)
        ci.statics['trailingZ'] = ('BitUtil_trailingZ', 'int[64]')
        ci.statics['lastBitTable'] = ('BitUtil_lastBitTable', 'int[64]')
    if 'BitBoard' not in U.tr.classes:
        ci = ClassInfo('BitBoard'); ci.src = U.src(BB_H); U.tr.add_class(ci)
    U.table(BB_C, r'const\s+int\s+BitUtil::trailingZ\[64\]', 'int BitUtil_trailingZ[64]')
    U.table(BB_C, r'const\s+int\s+BitUtil::lastBitTable\[64\]', 'int BitUtil_lastBitTable[64]')
    U.pull(BB_H, 'BitUtil::firstBit')
    U.pull(BB_H, 'BitUtil::lastBit')
    U.pull(BB_H, 'BitUtil::extractBit')
    U.pull(BB_H, 'BitUtil::bitCount')
    U.pull(BB_H, 'BitBoard::firstSquare')
    U.pull(BB_H, 'BitBoard::lastSquare')
    U.pull(BB_H, 'BitBoard::extractSquare')
    U.pull(BB_H, 'BitBoard::bitCount')


BIT_SPEC = r'''
/* ---- bit-set spec (loop-defined, constant trip counts) ---- */
static int spec_popcount(U64 m) { int c = 0; for (int i = 0; i < 64; i++) if ((m >> i) & 1) c++; return c; }
static int spec_lowest(U64 m) { for (int i = 0; i < 64; i++) if ((m >> i) & 1) return i; return 64; }
static int spec_highest(U64 m) { for (int i = 63; i >= 0; i--) if ((m >> i) & 1) return i; return -1; }
'''

BIT_CONTRACTS = {
    'BitUtil_firstBit': {
        'requires': ['mask != 0'], 'assigns': [],
        'ensures': ['__CPROVER_return_value == spec_lowest(mask)', '0 <= __CPROVER_return_value && __CPROVER_return_value < 64'],
    },
    'BitUtil_lastBit': {
        'requires': ['mask != 0'], 'assigns': [],
        'ensures': ['__CPROVER_return_value == spec_highest(mask)', '0 <= __CPROVER_return_value && __CPROVER_return_value < 64'],
    },
    'BitUtil_extractBit': {
        'requires': ['__CPROVER_is_fresh(mask, sizeof(U64))', '*mask != 0'], 'assigns': ['*mask'],
        'ensures': ['__CPROVER_return_value == spec_lowest(__CPROVER_old(*mask))', '0 <= __CPROVER_return_value && __CPROVER_return_value < 64',
                    '*mask == (__CPROVER_old(*mask) & ~(1ULL << __CPROVER_return_value))'],
    },
    'BitUtil_bitCount': {
        'assigns': [], 'ensures': ['__CPROVER_return_value == spec_popcount(mask)'],
    },
    'BitBoard_firstSquare': {
        'requires': ['mask != 0'], 'assigns': [],
        'ensures': ['__CPROVER_return_value == spec_lowest(mask)', '0 <= __CPROVER_return_value && __CPROVER_return_value < 64'],
    },
    'BitBoard_lastSquare': {
        'requires': ['mask != 0'], 'assigns': [],
        'ensures': ['__CPROVER_return_value == spec_highest(mask)', '0 <= __CPROVER_return_value && __CPROVER_return_value < 64'],
    },
    'BitBoard_extractSquare': {
        'requires': ['__CPROVER_is_fresh(mask, sizeof(U64))', '*mask != 0'], 'assigns': ['*mask'],
        'ensures': ['__CPROVER_return_value == spec_lowest(__CPROVER_old(*mask))', '0 <= __CPROVER_return_value && __CPROVER_return_value < 64',
                    '*mask == (__CPROVER_old(*mask) & ~(1ULL << __CPROVER_return_value))'],
    },
    'BitBoard_bitCount': {
        'assigns': [], 'ensures': ['__CPROVER_return_value == spec_popcount(mask)'],
    },
}


def move_undo(U):
    U.struct(MOVE_H, 'Move', expect=[('Square', 'from_', ''), ('Square', 'to_', ''), ('int', 'promoteTo_', ''), ('int', 'score_', '')],
             default_init='{0, 0, 0, 0}')
    U.struct(UNDO_H, 'UndoInfo', expect=[('int', 'capturedPiece', ''), ('int', 'castleMask', ''), ('Square', 'epSquare', ''), ('int', 'halfMoveClock', '')],
             default_init='{0, 0, 0, 0}')
    for m, n in (('from', 0), ('to', 0), ('promoteTo', 0), ('score', 0), ('setMove', 4), ('setScore', 1),
                 ('getCompressedMove', 0), ('setFromCompressed', 1), ('isEmpty', 0)):
        U.pull(MOVE_H, 'Move::' + m, nparams=n)


def matid(U):
    src = U.src(MAT_H)
    f = find_function(src, 'MatId::MatId', nparams=0)
    if [(a, norm(b)) for a, b in f.init] != [('hash', '0')]:
        raise ExtractError('translation pin changed: MatId::MatId() no longer initialises hash(0)')
    ci = U.struct(MAT_H, 'MatId', expect=[('int', 'hash', '')], default_init='{0}')
    U.consts(MAT_H, 'MatId', ['WP', 'WR', 'WN', 'WB', 'WQ', 'BP', 'BR', 'BN', 'BB', 'BQ'])
    # const int MatId::materialId[] = { 0, 0, WQ, WR, ... } lives in material.cpp
    s = U.src('lib/texellib/material.cpp')
    m = re.search(r'const\s+int\s+MatId::materialId\[[^\]]*\]\s*=\s*\{([^}]*)\}', s.text)
    if not m:
        raise ExtractError('MatId::materialId initialiser not found')
    vals = [x.strip() for x in m.group(1).split(',') if x.strip()]
    if len(vals) != 13:
        raise ExtractError('MatId::materialId has %d entries' % len(vals))
    cvals = []
    for v in vals:
        cvals.append(U.tr.consts['MatId::' + v] if 'MatId::' + v in U.tr.consts else v)
    U.raw('static const int MatId_materialId[13] = { %s };\n' % ', '.join(cvals))
    ci.statics['materialId'] = ('MatId_materialId', 'int[13]')
    U.raw('#define MATID_ZERO ((struct MatId){0})   /* MatId() : hash(0)  (pinned) */\n')
    U.passthrough('MATID_ZERO')
    U.pull(MAT_H, 'MatId::addPiece')
    U.pull(MAT_H, 'MatId::removePiece')
    U.pull(MAT_H, 'MatId::addPieceCnt')
    U.pull(MAT_H, 'MatId::operator()', cname='MatId_get')
    U.pull(MAT_H, 'MatId::mirror')
    return ci
