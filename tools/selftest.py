#!/usr/bin/env python3
"""setup_cmd: nothing to build (python + installed cbmc); checks that the tools are present."""
import shutil, sys, subprocess
ok = True
for t in ('cbmc', 'goto-cc', 'goto-instrument', 'g++'):
    if not shutil.which(t):
        print('missing tool', t); ok = False
for t in ('gcc', 'objcopy', 'cmake'):
    if not shutil.which(t):
        print('note: %s not found - native replay of counterexamples will report no-failing-input-found' % t)
print(subprocess.run(['cbmc', '--version'], capture_output=True, text=True).stdout.strip())
sys.exit(0 if ok else 1)
