"""Unit book (C18): polyglot move decoding/encoding, entry (de)serialisation, binary search of getBookEntries (fragment),
move selection of Book::getBookMove (fragment)."""
import sys, os, re
sys.path.insert(0, os.path.dirname(os.path.dirname(os.path.abspath(__file__))))
from unitlib import Unit, ClassInfo, norm
from cxx2c import ExtractError, find_function
from prove import Group
import common
from common import POS_H, MOVE_H

PG_H = 'lib/texellib/book/polyglot.hpp'
PG_C = 'lib/texellib/book/polyglot.cpp'
BK_H = 'lib/texellib/book/book.hpp'
BK_C = 'lib/texellib/book/book.cpp'


def build():
    U = Unit('book')
    common.pieces(U)
    common.square_methods(U)
    common.move_undo(U)
    f = find_function(U.src(MOVE_H), 'Move::Move', nparams=4)
    if [(a, norm(b)) for a, b in f.init] != [('from_', 'from'), ('to_', 'to'), ('promoteTo_', 'promoteTo'), ('score_', 'score')] or 'int score = 0' not in norm(open(os.path.join(__import__('cxx2c').REPO, MOVE_H)).read()):
        raise ExtractError('pin changed: Move(from, to, promoteTo, score = 0)')
    f = find_function(U.src(MOVE_H), 'Move::Move', nparams=0)
    if [(a, norm(b)) for a, b in f.init] != [('from_', 'Square(0)'), ('to_', 'Square(0)'), ('promoteTo_', '0'), ('score_', '0')]:
        raise ExtractError('pin changed: Move()')
    U.raw('#define MOVE_MAKE(f, t, p) ((struct Move){(f), (t), (p), 0})   /* Move(from, to, promoteTo, score = 0), pinned */\n'
          '#define MOVE_EMPTY ((struct Move){0, 0, 0, 0})   /* Move(), pinned */\n')
    U.passthrough('MOVE_MAKE', 'MOVE_EMPTY')
    U.pull(MOVE_H, 'Move::operator==', cname='Move_equals')
    U.struct(POS_H, 'Position', bases=('PositionBase',), only=['squares', 'whiteMove'])
    for m, n in (('isWhiteMove', 0), ('getPiece', 1)):
        U.pull(POS_H, 'Position::' + m, nparams=n)
    U.struct(PG_H, 'PGEntry', expect=[('U8', 'data', '[16]')])
    U.tr.typemap['PolyglotBook::PGEntry'] = 'struct PGEntry'
    pg = ClassInfo('PolyglotBook'); pg.src = U.src(PG_H); U.tr.add_class(pg)
    U.pull(PG_C, 'PolyglotBook::getPGMove', as_static=True)
    U.pull(PG_C, 'PolyglotBook::getMove', as_static=True, rules=[(r'return Move\(from, to, promoteTo\);', 'return MOVE_MAKE(from, to, promoteTo);', 1)])
    U.pull(PG_C, 'PolyglotBook::serialize', as_static=True)
    U.pull(PG_C, 'PolyglotBook::deSerialize', as_static=True)
    # ---- binary search over the polyglot file (fragment of Book::getBookEntries) ----
    U.stub('ghost_readEntry', 'void ghost_readEntry(int entNo, struct PGEntry* ent)')
    U.raw('int ghost_numEntries;   /* numEntries = fileLen / 16 */\n')
    U.passthrough('ghost_numEntries')
    U.fragment(BK_C, 'Book_getBookEntries_search', r'int lo = ', r'for \(int entNo = ',
               params=[('int', 'numEntries', False), ('U64', 'key', False), ('PolyglotBook::PGEntry', 'ent', True), ('U64', 'entHash', True), ('U16', 'entMove', True), ('U16', 'entWeight', True)],
               ret='int', rules=[(r'readEntry\(mid, ent\);', 'ghost_readEntry(mid, &ent);', 1)], epilogue='\n    return hi;\n')
    # ---- move selection of Book::getBookMove (fragment) ----
    U.struct(BK_H, 'BookEntry', expect=[('Move', 'move', ''), ('int', 'count', '')])
    U.raw('struct VecBookEntry { struct BookEntry* data; int size; };\n')
    U.tr.typemap['std::vector<BookEntry>'] = 'struct VecBookEntry'
    U.raw('struct MoveList { int size; struct Move buf[256]; };   /* pinned in unit movegen */\n#define MoveList_at(ml, i) (&(ml)->buf[i])\n')
    ml = ClassInfo('MoveList'); ml.fields = {'size': ('int', ''), 'buf': ('Move[256]', '[256]')}; ml.default_init = '{0}'
    U.tr.add_class(ml)
    U.tr.declare('MoveList_at', 'MoveList', 'operator[]', 'Move', [('int', 'i', False)], is_static=False, ret_ref=True)
    U.stub('ghost_legal_moves', 'void ghost_legal_moves(struct MoveList* legalMoves)')
    U.stub('ghost_nextInt', 'int ghost_nextInt(int n)')
    U.stub('ghost_sqrt', 'double ghost_sqrt(double x)')
    bk = ClassInfo('Book'); bk.src = U.src(BK_H); U.tr.add_class(bk)
    U.pull(BK_C, 'Book::getWeight', as_static=True, rules=[(r'::sqrt\(', 'ghost_sqrt(', 2)])
    U.raw('int ghost_rnd;   /* the random draw of the selection */\n')
    U.raw('int ghost_pick; int ghost_j, ghost_kj; struct MoveList ghost_legal;   /* the legal move list handed out by the MoveGen stub */\n')
    U.passthrough('ghost_pick', 'ghost_j', 'ghost_kj', 'Move_equals')
    U.fragment(BK_C, 'Book_getBookMove_select', r'MoveList legalMoves;\s*MoveGen::pseudoLegalMoves\(pos, legalMoves\);', r'std::string\s*Book::getAllBookMoves',
               params=[('Position', 'pos', True), ('Move', 'out', True), ('std::vector<BookEntry>', 'bookMoves', True), ('bool', 'pgBook', False)], cls='Book', is_static=True,
               rules=[(r'MoveGen::pseudoLegalMoves\(pos, legalMoves\);\s*MoveGen::removeIllegal\(pos, legalMoves\);', 'ghost_legal_moves(&legalMoves);', 1),
                      (r'for \(const BookEntry& be : bookMoves\) \{', 'for (int be_i = 0; be_i < bookMoves.size(); be_i++) { const BookEntry& be = bookMoves[be_i];', 2),
                      (r'rndGen\.nextInt\(sum\)', 'ghost_nextInt(sum)', 1),
                      (r'legalMoves\[mi\] == be\.move', 'Move_equals(&legalMoves[mi], &be.move)', 1),
                      (r'\}\s*$', '', 1)])
    return U


SPEC = r'''
/* the polyglot file is a fixed sequence of entries: ghost_fg is an arbitrary index and ghost_fh the key stored there (stands for "for all indices") */
int ghost_fg; U64 ghost_fh;

int __CPROVER_uninterpreted_weight(int, int);   /* Book::getWeight is a function of its arguments (no state is read) */
_Bool ghost_assume_det;   /* set by the selection harness only: determinism of getWeight is an assumption there */
#define MOVES_SAME(a, b) ((a)->buf[0].from_ == (b)->buf[0].from_ && (a)->buf[0].to_ == (b)->buf[0].to_ && (a)->buf[0].promoteTo_ == (b)->buf[0].promoteTo_ && (a)->buf[1].from_ == (b)->buf[1].from_ && (a)->buf[1].to_ == (b)->buf[1].to_ && (a)->buf[1].promoteTo_ == (b)->buf[1].promoteTo_ && (a)->buf[2].from_ == (b)->buf[2].from_ && (a)->buf[2].to_ == (b)->buf[2].to_ && (a)->buf[2].promoteTo_ == (b)->buf[2].promoteTo_ && (a)->buf[3].from_ == (b)->buf[3].from_ && (a)->buf[3].to_ == (b)->buf[3].to_ && (a)->buf[3].promoteTo_ == (b)->buf[3].promoteTo_ && (a)->buf[4].from_ == (b)->buf[4].from_ && (a)->buf[4].to_ == (b)->buf[4].to_ && (a)->buf[4].promoteTo_ == (b)->buf[4].promoteTo_ && (a)->buf[5].from_ == (b)->buf[5].from_ && (a)->buf[5].to_ == (b)->buf[5].to_ && (a)->buf[5].promoteTo_ == (b)->buf[5].promoteTo_ && (a)->buf[6].from_ == (b)->buf[6].from_ && (a)->buf[6].to_ == (b)->buf[6].to_ && (a)->buf[6].promoteTo_ == (b)->buf[6].promoteTo_ && (a)->buf[7].from_ == (b)->buf[7].from_ && (a)->buf[7].to_ == (b)->buf[7].to_ && (a)->buf[7].promoteTo_ == (b)->buf[7].promoteTo_ && (a)->buf[8].from_ == (b)->buf[8].from_ && (a)->buf[8].to_ == (b)->buf[8].to_ && (a)->buf[8].promoteTo_ == (b)->buf[8].promoteTo_ && (a)->buf[9].from_ == (b)->buf[9].from_ && (a)->buf[9].to_ == (b)->buf[9].to_ && (a)->buf[9].promoteTo_ == (b)->buf[9].promoteTo_ && (a)->buf[10].from_ == (b)->buf[10].from_ && (a)->buf[10].to_ == (b)->buf[10].to_ && (a)->buf[10].promoteTo_ == (b)->buf[10].promoteTo_ && (a)->buf[11].from_ == (b)->buf[11].from_ && (a)->buf[11].to_ == (b)->buf[11].to_ && (a)->buf[11].promoteTo_ == (b)->buf[11].promoteTo_ && (a)->buf[12].from_ == (b)->buf[12].from_ && (a)->buf[12].to_ == (b)->buf[12].to_ && (a)->buf[12].promoteTo_ == (b)->buf[12].promoteTo_ && (a)->buf[13].from_ == (b)->buf[13].from_ && (a)->buf[13].to_ == (b)->buf[13].to_ && (a)->buf[13].promoteTo_ == (b)->buf[13].promoteTo_ && (a)->buf[14].from_ == (b)->buf[14].from_ && (a)->buf[14].to_ == (b)->buf[14].to_ && (a)->buf[14].promoteTo_ == (b)->buf[14].promoteTo_ && (a)->buf[15].from_ == (b)->buf[15].from_ && (a)->buf[15].to_ == (b)->buf[15].to_ && (a)->buf[15].promoteTo_ == (b)->buf[15].promoteTo_)
#define LEGAL_MAX 16   /* data bound of the selection proof: at most 16 legal moves are compared (list positions 0..15) */
#define IS_WHITE(p) ((p) >= Piece_WKING && (p) <= Piece_WPAWN)
'''
def _cum(k):
    # cumulative weight of the entries 0..k (k = -1: 0); weights are the (deterministic, assumed) values of Book::getWeight
    return ' + '.join(['0'] + ['__CPROVER_uninterpreted_weight(bookMoves->data[%d].count, pgBook != 0)' % i for i in range(k + 1)])


CONTRACTS = {
    # every 16-bit code decodes to squares on the board and a promotion piece of the mover (or none)
    'PolyglotBook_getMove': {
        'requires': ['__CPROVER_is_fresh(pos, sizeof(*pos))', 'pos->whiteMove == 0 || pos->whiteMove == 1'],
        'assigns': [],
        'ensures': ['0 <= __CPROVER_return_value.from_ && __CPROVER_return_value.from_ < 64 && 0 <= __CPROVER_return_value.to_ && __CPROVER_return_value.to_ < 64',
                    '__CPROVER_return_value.promoteTo_ == Piece_EMPTY || (pos->whiteMove ? (__CPROVER_return_value.promoteTo_ >= Piece_WQUEEN && __CPROVER_return_value.promoteTo_ <= Piece_WKNIGHT) : (__CPROVER_return_value.promoteTo_ >= Piece_BQUEEN && __CPROVER_return_value.promoteTo_ <= Piece_BKNIGHT))',
                    '__CPROVER_return_value.score_ == 0'],
    },
    'PolyglotBook_serialize': {
        'requires': ['__CPROVER_is_fresh(ent, sizeof(*ent))'], 'assigns': ['__CPROVER_object_whole(ent)'],
        'ensures': ['((U64)ent->data[0] << 56 | (U64)ent->data[1] << 48 | (U64)ent->data[2] << 40 | (U64)ent->data[3] << 32 | (U64)ent->data[4] << 24 | (U64)ent->data[5] << 16 | (U64)ent->data[6] << 8 | (U64)ent->data[7]) == hash',
                    '((ent->data[8] << 8) | ent->data[9]) == move', '((ent->data[10] << 8) | ent->data[11]) == weight',
                    'ent->data[12] == 0 && ent->data[13] == 0 && ent->data[14] == 0 && ent->data[15] == 0'],
    },
    'PolyglotBook_deSerialize': {
        'requires': ['__CPROVER_is_fresh(ent, sizeof(*ent))', '__CPROVER_is_fresh(hash, 8)', '__CPROVER_is_fresh(move, 2)', '__CPROVER_is_fresh(weight, 2)'],
        'assigns': ['*hash', '*move', '*weight'],
        'ensures': ['*hash == ((U64)ent->data[0] << 56 | (U64)ent->data[1] << 48 | (U64)ent->data[2] << 40 | (U64)ent->data[3] << 32 | (U64)ent->data[4] << 24 | (U64)ent->data[5] << 16 | (U64)ent->data[6] << 8 | (U64)ent->data[7])',
                    '*move == ((ent->data[8] << 8) | ent->data[9])', '*weight == ((ent->data[10] << 8) | ent->data[11])'],
    },
    'ghost_readEntry': {   # assumed: stands for the lambda reading 16 bytes at offset entNo*16 (zero entry on read failure)
        'requires': ['0 <= entNo && entNo < ghost_numEntries', '__CPROVER_is_fresh(ent, sizeof(*ent))'],
        'assigns': ['__CPROVER_object_whole(ent)'],
        # the file is a fixed (arbitrary) sequence of entries: reading index ghost_fg yields the key ghost_fh
        'ensures': ['entNo == ghost_fg ==> ((U64)ent->data[0] << 56 | (U64)ent->data[1] << 48 | (U64)ent->data[2] << 40 | (U64)ent->data[3] << 32 | (U64)ent->data[4] << 24 | (U64)ent->data[5] << 16 | (U64)ent->data[6] << 8 | (U64)ent->data[7]) == ghost_fh']},
    'Book_getBookEntries_search': {
        'requires': ['0 <= numEntries && numEntries <= (1 << 27)', 'numEntries == ghost_numEntries', '__CPROVER_is_fresh(ent, sizeof(*ent))', '__CPROVER_is_fresh(entHash, 8)',
                     '__CPROVER_is_fresh(entMove, 2)', '__CPROVER_is_fresh(entWeight, 2)'],
        'assigns': ['__CPROVER_object_whole(ent)', '*entHash', '*entMove', '*entWeight'],
        # whatever the file contains (unsorted, truncated, corrupted): every entry index read is inside the file and the search ends
        'ensures': ['0 <= __CPROVER_return_value && __CPROVER_return_value <= numEntries',
                    # ... and the index returned is a boundary: the entry before it has a smaller key, the entry at it a key that is not smaller
                    # (in a sorted file this is the first entry whose key is >= the wanted key, the one the reading loop must start from)
                    '((__CPROVER_return_value - 1 == ghost_fg && ghost_fg >= 0) ==> ghost_fh < key) && ((__CPROVER_return_value == ghost_fg && __CPROVER_return_value < numEntries) ==> ghost_fh >= key)'],
        'loops': {0: {'assigns': 'lo, hi, __CPROVER_object_whole(ent), *entHash, *entMove, *entWeight',
                      'invariant': ['-1 <= lo && lo < hi && hi <= numEntries', '((lo == ghost_fg && lo >= 0) ==> ghost_fh < key) && ((hi == ghost_fg && hi < numEntries) ==> ghost_fh >= key)'], 'decreases': 'hi - lo'}},
    },
    'ghost_legal_moves': {  # assumed: MoveGen::pseudoLegalMoves + removeIllegal (C01): fills the list with the legal moves
        'requires': ['__CPROVER_is_fresh(legalMoves, sizeof(*legalMoves))'],
        'assigns': ['__CPROVER_object_whole(legalMoves)'], 'ensures': ['0 <= legalMoves->size && legalMoves->size <= LEGAL_MAX', 'legalMoves->size == ghost_legal.size', 'MOVES_SAME(legalMoves, &ghost_legal)']},
    'ghost_nextInt': {'requires': ['n > 0'], 'assigns': ['ghost_rnd'], 'ensures': ['0 <= __CPROVER_return_value && __CPROVER_return_value < n', 'ghost_rnd == __CPROVER_return_value']},   # assumed: Random::nextInt (the draw is recorded in ghost_rnd)
    'ghost_sqrt': {'requires': ['x >= 0.0'], 'assigns': [], 'ensures': ['__CPROVER_return_value >= 0.0 && __CPROVER_return_value <= 1.0e9 && (x <= 1.0e15 ==> __CPROVER_return_value * __CPROVER_return_value <= x + 1.0)']},   # assumed: ::sqrt (non-negative, square not above x+1)
    'Book_getWeight': {
        'requires': ['0 <= count && count <= 65535'], 'assigns': [],
        'ensures': ['pgBook ==> __CPROVER_return_value == count', '!pgBook ==> (1 <= __CPROVER_return_value && __CPROVER_return_value <= 1000000)',
                    'ghost_assume_det ==> __CPROVER_return_value == __CPROVER_uninterpreted_weight(count, pgBook != 0)'],
    },
    'Book_getBookMove_select': {
        'requires': ['__CPROVER_is_fresh(pos, sizeof(*pos))', '__CPROVER_is_fresh(out, sizeof(*out))', '__CPROVER_is_fresh(bookMoves, sizeof(*bookMoves))',
                     '1 <= bookMoves->size && bookMoves->size <= 4', '__CPROVER_is_fresh(bookMoves->data, 4 * sizeof(struct BookEntry))',
                     'out->from_ == 0 && out->to_ == 0 && out->promoteTo_ == 0 && out->score_ == 0', 'ghost_pick == -1',
                     '0 <= bookMoves->data[0].count && bookMoves->data[0].count <= 65535', '0 <= bookMoves->data[1].count && bookMoves->data[1].count <= 65535', '0 <= bookMoves->data[2].count && bookMoves->data[2].count <= 65535', '0 <= bookMoves->data[3].count && bookMoves->data[3].count <= 65535'],
        'assigns': ['*out', 'ghost_pick', 'ghost_kj', 'ghost_rnd'],
        # the result is the empty move or one of the stored moves (ghost_pick), and in that case every stored move is in the legal list
        'ensures': ['(out->from_ == 0 && out->to_ == 0 && out->promoteTo_ == 0 && ghost_pick == -1) || (0 <= ghost_pick && ghost_pick < bookMoves->size && out->from_ == bookMoves->data[ghost_pick].move.from_ && out->to_ == bookMoves->data[ghost_pick].move.to_ && out->promoteTo_ == bookMoves->data[ghost_pick].move.promoteTo_)',
                    # a returned move is a member of the legal move list (ghost_j arbitrary: for the picked entry the witness index was recorded)
                    '(ghost_pick >= 0 && ghost_pick == ghost_j) ==> (0 <= ghost_kj && ghost_kj < ghost_legal.size && ghost_legal.buf[ghost_kj].from_ == out->from_ && ghost_legal.buf[ghost_kj].to_ == out->to_ && ghost_legal.buf[ghost_kj].promoteTo_ == out->promoteTo_)']
                   # the entry returned is the one whose weight window contains the random draw: windows are [cum(i-1), cum(i)), so every entry of
                   # positive weight is returned for some draw and an entry of weight 0 never is
                   + ['ghost_pick == %d ==> (%s <= ghost_rnd && ghost_rnd < %s)' % (i, _cum(i - 1), _cum(i)) for i in range(4)],
        'ghost_at': [(r'\(\*out\) = \(\*be\)\.move;', 'ghost_pick = be_i;'), (r'contains = true;', 'if (be_i == ghost_j) ghost_kj = mi;')],
    },
}
HARNESS = r'''
#ifdef CANARY
#define CANARY_POINT __CPROVER_assert(0, "canary: harness end reachable")
#else
#define CANARY_POINT
#endif
int nondet_int(void);
static void hv(void) { __CPROVER_havoc_object(&ghost_legal); ghost_numEntries = nondet_int(); ghost_pick = nondet_int(); ghost_j = nondet_int(); ghost_kj = nondet_int(); ghost_rnd = nondet_int(); ghost_fg = nondet_int(); ghost_fh = ((U64)(unsigned)nondet_int() << 32) | (unsigned)nondet_int(); }
void h_getMove(void) { struct Position* p; U16 mv; hv(); PolyglotBook_getMove(p, mv); CANARY_POINT; }
void h_serialize(void) { U64 h; U16 m, w; struct PGEntry* e; hv(); PolyglotBook_serialize(h, m, w, e); CANARY_POINT; }
void h_deSerialize(void) { struct PGEntry* e; U64* h; U16 *m, *w; hv(); PolyglotBook_deSerialize(e, h, m, w); CANARY_POINT; }
void h_search(void) { int n; U64 key; struct PGEntry* e; U64* h; U16 *m, *w; hv(); Book_getBookEntries_search(n, key, e, h, m, w); CANARY_POINT; }
void h_getWeight(void) { int c; _Bool pg = (nondet_int() != 0); hv(); ghost_assume_det = 0; Book_getWeight(c, pg); CANARY_POINT; }
void h_select(void) { struct Position* p; struct Move* o; struct VecBookEntry* v; _Bool pg = (nondet_int() != 0); hv(); ghost_assume_det = 1; Book_getBookMove_select(p, o, v, pg); CANARY_POINT; }
/* lemma: getMove(getPGMove(m)) == m for moves whose squares are on the board and whose promotion piece belongs to the mover,
   including king-takes-rook castling encodings */
void h_lemma_pg_roundtrip(void) {
    struct Position pos; struct Move m; __CPROVER_havoc_object(&pos); __CPROVER_havoc_object(&m);
    pos.whiteMove = (nondet_int() != 0);
    __CPROVER_assume(0 <= m.from_ && m.from_ < 64 && 0 <= m.to_ && m.to_ < 64 && m.score_ == 0);
    __CPROVER_assume(m.promoteTo_ == Piece_EMPTY || (pos.whiteMove ? (m.promoteTo_ >= Piece_WQUEEN && m.promoteTo_ <= Piece_WKNIGHT) : (m.promoteTo_ >= Piece_BQUEEN && m.promoteTo_ <= Piece_BKNIGHT)));
    /* a king on its home square does not "move" onto the rook squares a1/h1/a8/h8 except by castling, which texel writes as e1g1/e1c1 */
    __CPROVER_assume(!(m.from_ == E1 && pos.squares[E1] == Piece_WKING && (m.to_ == H1 || m.to_ == A1)));
    __CPROVER_assume(!(m.from_ == E8 && pos.squares[E8] == Piece_BKING && (m.to_ == H8 || m.to_ == A8)));
    U16 code = PolyglotBook_getPGMove(&pos, &m);
    struct Move r = PolyglotBook_getMove(&pos, code);
    __CPROVER_assert(r.from_ == m.from_ && r.to_ == m.to_ && r.promoteTo_ == m.promoteTo_, "polyglot move code round trip");
    CANARY_POINT;
}
'''
UNWIND = {'PolyglotBook_serialize': 9, 'PolyglotBook_deSerialize': 9, 'Book_getBookMove_select': 5, 'Book_getBookMove_select.inner': 257}
GROUPS = [
    Group('pg_getMove', 'h_getMove', enforce='PolyglotBook_getMove', min_props=3),
    Group('pg_serialize', 'h_serialize', enforce='PolyglotBook_serialize', min_props=3),
    Group('pg_deSerialize', 'h_deSerialize', enforce='PolyglotBook_deSerialize', min_props=3),
    Group('pg_roundtrip', 'h_lemma_pg_roundtrip', min_props=3),
    Group('book_search', 'h_search', enforce='Book_getBookEntries_search', replace=('ghost_readEntry', 'PolyglotBook_deSerialize'), loop_contracts=True, min_props=5, expect_loop_props=1),
    Group('book_select', 'h_select', enforce='Book_getBookMove_select', replace=('ghost_legal_moves', 'ghost_nextInt', 'Book_getWeight'), min_props=10, timeout=1800,
          unwindset={'Book_getBookMove_select': 18},
          bounded='at most 4 book entries for the probed position and 16 legal moves (loops unrolled to these bounds, unwinding assertions on)'),
    Group('book_getWeight', 'h_getWeight', enforce='Book_getWeight', replace=('ghost_sqrt',), floats=True, min_props=3),
]
PROPERTIES = {'C18': [g.name for g in GROUPS]}
ASSUMPTIONS = {'C18': ['in group book_select Book::getWeight is assumed to be a deterministic function of (count, pgBook) (uninterpreted function); its range is proved in group book_getWeight',
                       'assumed contracts: ghost_readEntry (file read lambda), ghost_legal_moves (MoveGen, C01), ghost_nextInt (Random::nextInt in [0,n)), ghost_sqrt (::sqrt, non-negative and <= max(1,x))',
                       'polyglot files smaller than 2 GiB (numEntries <= 2^27)']}
NOT_DECIDED = {'C18': ['std::fstream behaviour, the built-in book map, the distribution of Random::nextInt (the selection window of every entry is decided)',
                       'data bounds of the selection proof: at most 4 book entries for the position and 16 legal moves (loops unrolled to these bounds with unwinding assertions)']}

MUTANTS = [
    dict(name='pg_castle_decode_skipped', file='lib/texellib/book/polyglot.cpp', pattern=r'        if \(to == H8\)\n            to = G8;', repl='        if (to == H8)\n            to = H8;', groups=['pg_roundtrip']),
    dict(name='pg_prom_black', file='lib/texellib/book/polyglot.cpp', pattern=r'case 3: promoteTo = wtm \? Piece::WROOK   : Piece::BROOK;', repl='case 3: promoteTo = wtm ? Piece::WROOK   : Piece::WROOK;', groups=['pg_getMove', 'pg_roundtrip']),
    dict(name='pg_prom_mask', file='lib/texellib/book/polyglot.cpp', pattern=r'int prom = \(move >> 12\) & 7;', repl='int prom = (move >> 12) & 15;', groups=['pg_roundtrip', 'pg_getMove']),
    dict(name='pg_deser_byteorder', file='lib/texellib/book/polyglot.cpp', pattern=r'move = \(move << 8\) \| ent.data\[8\+i\];', repl='move = (move << 8) | ent.data[9-i];', groups=['pg_deSerialize']),
    dict(name='search_mid_off', file='lib/texellib/book/book.cpp', pattern=r'int mid = \(lo \+ hi\) / 2;', repl='int mid = (lo + hi + 1) / 2;', groups=['book_search']),
    dict(name='search_lo_zero', file='lib/texellib/book/book.cpp', pattern=r'int lo = -1;', repl='int lo = 0;', groups=['book_search']),
    dict(name='select_skip_illegal_check', file='lib/texellib/book/book.cpp', pattern=r'        if \(!contains\) \{', repl='        if (!contains && be.count == 0) {', groups=['book_select']),
    dict(name='select_rnd_le', file='lib/texellib/book/book.cpp', pattern=r'if \(rnd < sum\) \{', repl='if (rnd + 1 < sum) {', groups=['book_select']),
]
