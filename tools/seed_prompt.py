#!/usr/bin/env python3
"""prints the prompt for a seeding sub-agent: property text + worktree path only (nothing from /verif)."""
import json, sys
pid, wt = sys.argv[1], sys.argv[2]
for l in open('/verif/properties.jsonl'):
    d = json.loads(l)
    if d['id'] == pid:
        break
print(f"""You are helping to evaluate a verification effort by playing the adversary. You work ONLY inside the git worktree {wt} (a scratch checkout of the C++ chess engine "texel", peterosterlund2/texel). Do not read or touch /verif or /repo.

Here is a semantic property of texel that is supposed to hold:

  id: {d['id']}
  title: {d['title']}
  statement: {d['statement']}
  quantifier: {d['quantifier']['text']}
  why the existing tests cannot settle it: {d['why_tests_cant']}
  anchor files: {', '.join(d['anchors']['files'])}
  mechanisms: {json.dumps(d['anchors']['mechanism'])}

Your task: produce ONE realistic source change to texel (in {wt}) that BREAKS this property while the code still compiles and the existing test suite still passes. The change should look like a plausible maintenance edit or refactoring slip (an off-by-one, a wrong constant, a swapped argument, a dropped special case, a wrong sign or comparison, two cooperating sites that each look fine alone) - not sabotage that ordinary use would expose at once. It must need something specific to manifest: an unusual input, a particular size/parity/clock value, a multi-step sequence of operations, a particular history, or a fault at a particular point. Keep the change small (a few lines) and inside the anchor files if possible.

Requirements:
1. Build: `cmake -G Ninja -B {wt}/_build -S {wt} >/dev/null && cmake --build {wt}/_build -j8` (the tree builds offline; there is no network). Then run the existing tests: `ctest --test-dir {wt}/_build -j8 --timeout 900`. A number of tests fail on the UNCHANGED tree already (those that need network weights / tablebase files: SearchTest.*, most EvaluateTest.*, TBTest.*, NNTest.testIncremental, ComputerPlayerTest.*, GameTest.testPerfT, TBGenTest.testGenerate, TranspositionTableTest.testMateDepth, BookBuildTest.testSelector). So first record which tests pass on the unchanged tree, and make sure exactly the same tests still pass with your change.
2. Write a demonstration: a small standalone C++ program (or an added gtest) that links against the built library ({wt}/_build/lib/texellib/libtexellib.a, include dirs {wt}/lib/texellib and its subdirectories util, hw, tb, nn, book, debug; for utilities also {wt}/lib/texelutillib) which exits non-zero / fails WITH your change and exits zero / passes WITHOUT it. It must drive the real code. `g++ -std=c++11 -O1 -fno-access-control -pthread` is a convenient way to reach private members. Some static tables need `ComputerPlayer::initEngine()`-like initialisation; look at how test/texellib/*.cpp set things up (e.g. calling nothing special works for most library classes since static initialisers run automatically).
3. Save into the directory {wt}/SEED/ : patch.diff (output of `git -C {wt} diff` for the source change only, not build output or the demo), the demonstration source (demo.cpp or similar) plus a short run.sh that builds and runs it given the worktree path as $1 (exit status 0 = property holds, non-zero = broken), and notes.md explaining: what the change is, why it breaks the property, what it needs in order to manifest, and the exact commands you ran with their outcomes (test-suite pass lists before/after, demo before/after).
4. Leave the worktree WITH the change applied and built. Do not commit.

Be economical: one good, confirmed change is the goal. Report back briefly: the idea of the change, what it needs to manifest, and whether all confirmations succeeded.""")
