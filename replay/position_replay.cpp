// Native replay for unit position (C02): rebuilds the position of a CBMC counterexample with the real Position class of /repo, plays the
// move with the real makeMove / unMakeMove and compares with the unit's own spec text (spec_apply_sq, spec_castle_after, spec_ep_after,
// compiled as C) and with the repository's from-scratch hash.  Exit 1 = violation reproduced, 0 = not reproduced, 2 = usage.
#include "position.hpp"
#include "textio.hpp"
#include <cstdio>
#include <cstdlib>
extern "C" {
void oracle_set(const int* sq, int wm, int cm, int ep, int hmc, int fmc);
int oracle_shape(int f, int t, int p);
int oracle_sq_after(int f, int t, int p, int g);
int oracle_castle_after(int f, int t);
int oracle_ep_after(int f, int t, int p);
}
int main(int argc, char** argv) {
    if (argc < 73) { std::printf("usage: sq0..sq63 whiteMove castleMask epSquare halfMoveClock fullMoveCounter from to promoteTo\n"); return 2; }
    int sq[64]; for (int i = 0; i < 64; i++) sq[i] = std::atoi(argv[1 + i]);
    int wm = std::atoi(argv[65]), cm = std::atoi(argv[66]), ep = std::atoi(argv[67]), hmc = std::atoi(argv[68]), fmc = std::atoi(argv[69]);
    int from = std::atoi(argv[70]), to = std::atoi(argv[71]), promo = std::atoi(argv[72]);
    Position pos;
    for (int i = 0; i < 64; i++) { if (sq[i] < 0 || sq[i] > 12) return 2; pos.setPiece(Square(i), sq[i]); }
    pos.setWhiteMove(wm != 0); pos.setCastleMask(cm); pos.setEpSquare(ep >= 0 && ep < 64 ? Square(ep) : Square());
    pos.setHalfMoveClock(hmc); pos.setFullMoveCounter(fmc);
    oracle_set(sq, wm, cm, ep, hmc, fmc);
    std::printf("position: %s  move %d->%d promote %d\n", TextIO::toFEN(pos).c_str(), from, to, promo);
    if (!oracle_shape(from, to, promo)) { std::printf("move is not structurally valid in this position: outside the contract\n"); return 0; }
    Position before(pos);
    Move m(Square(from), Square(to), promo); UndoInfo ui;
    pos.makeMove(m, ui);
    bool ok = true;
    for (int g = 0; g < 64; g++)
        if (pos.getPiece(Square(g)) != oracle_sq_after(from, to, promo, g)) { std::printf("square %d: real %d, rules of chess %d\n", g, pos.getPiece(Square(g)), oracle_sq_after(from, to, promo, g)); ok = false; }
    if (pos.getCastleMask() != oracle_castle_after(from, to)) { std::printf("castle mask: real %d, spec %d\n", pos.getCastleMask(), oracle_castle_after(from, to)); ok = false; }
    int epr = pos.getEpSquare().isValid() ? pos.getEpSquare().asInt() : -1;
    if (epr != oracle_ep_after(from, to, promo)) { std::printf("en-passant square: real %d, spec %d\n", epr, oracle_ep_after(from, to, promo)); ok = false; }
    if (pos.isWhiteMove() == (wm != 0)) { std::printf("side to move not flipped\n"); ok = false; }
    U64 h = pos.zobristHash(); Position tmp(pos);
    if (tmp.computeZobristHash() != h) { std::printf("incremental hash differs from the from-scratch hash after makeMove\n"); ok = false; }
    pos.unMakeMove(m, ui);
    if (!(pos == before) || pos.getHalfMoveClock() != before.getHalfMoveClock() || pos.getFullMoveCounter() != before.getFullMoveCounter()
        || pos.zobristHash() != before.zobristHash()) { std::printf("unMakeMove(makeMove(p)) differs from p\n"); ok = false; }
    std::printf(ok ? "postcondition holds natively\n" : "VIOLATED natively\n");
    return ok ? 0 : 1;
}
