#!/bin/bash
# confirm_seed.sh <worktree> <outdir>: independent confirmation of a seeded change
# with change: builds, demo fails, tests pass-list ; without change: demo passes, same pass-list
wt=$1; out=$2; mkdir -p $out
cd $wt || exit 9
log=$out/confirm.log; : > $log
git -C $wt diff -- lib app test > $out/patch.diff
[ -s $out/patch.diff ] || { echo "empty patch" >> $log; exit 9; }
echo "== with change: build" >> $log
cmake --build $wt/_build -j8 >> $log 2>&1 || { echo "BUILD FAILED with change" >> $log; exit 1; }
bash $wt/SEED/run.sh $wt > $out/demo_with.log 2>&1; rc_with=$?
ctest --test-dir $wt/_build -j8 --timeout 900 2>/dev/null | grep -E "Test +#" | grep Passed | sed 's/.*: //; s/ \.\.\..*//' | sort > $out/pass_with.txt
echo "== without change" >> $log
git -C $wt apply -R $out/patch.diff >> $log 2>&1 || { echo "cannot revert" >> $log; exit 9; }
cmake --build $wt/_build -j8 >> $log 2>&1
bash $wt/SEED/run.sh $wt > $out/demo_without.log 2>&1; rc_without=$?
ctest --test-dir $wt/_build -j8 --timeout 900 2>/dev/null | grep -E "Test +#" | grep Passed | sed 's/.*: //; s/ \.\.\..*//' | sort > $out/pass_without.txt
git -C $wt apply $out/patch.diff >> $log 2>&1
same=no; cmp -s $out/pass_with.txt $out/pass_without.txt && same=yes
echo "RESULT demo_with_rc=$rc_with demo_without_rc=$rc_without tests_with=$(wc -l < $out/pass_with.txt) tests_without=$(wc -l < $out/pass_without.txt) same_pass_list=$same" | tee -a $log
