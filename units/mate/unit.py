"""Unit mate (C04 lemmas, C13 lemmas, C12 value encoding): mate-score conversions, on-demand probe margin, swindle score."""
import sys, os, re
sys.path.insert(0, os.path.dirname(os.path.dirname(os.path.abspath(__file__))))
from unitlib import Unit, ClassInfo
from prove import Group
import common

CONST_H = 'lib/texellib/constants.hpp'
S_C = 'lib/texellib/search.cpp'
TBG_H = 'lib/texellib/tb/tbgen.hpp'
TBG_C = 'lib/texellib/tb/tbgen.cpp'
TBP_C = 'lib/texellib/tb/tbprobe.cpp'
TT_H = 'lib/texellib/transpositionTable.hpp'
EV_C = 'lib/texellib/evaluate.cpp'
MOVE_H = 'lib/texellib/move.hpp'


def build():
    U = Unit('mate')
    U.consts(CONST_H, 'SearchConst', ['MATE0', 'UNKNOWN_SCORE', 'minFrustrated', 'maxFrustrated'])
    U.consts(CONST_H, 'TType', ['T_EMPTY', 'T_EXACT', 'T_GE', 'T_LE'])
    common.bit_primitives(U)
    U.pull(CONST_H, 'SearchConst::isWinScore', cname='isWinScore')
    U.pull(CONST_H, 'SearchConst::isLoseScore', cname='isLoseScore')
    U.raw('_Bool ghost_isMate;\n')
    U.passthrough('ghost_isMate')
    U.fragment(S_C, 'Search_notifyPV_scoreConv', r'bool isMate = false;', r'S64 tNow = currentTimeMillis\(\);\s*S64 time = tNow - tStart;\s*S64 totNodes = getTotalNodes\(\);\s*S64 tbHits = getTbHits\(\);\s*S64 nps',
                params=[('int', 'score', True)], using_ns=('SearchConst',), epilogue='\n    ghost_isMate = isMate;\n')
    # PositionValue (tbgen.hpp)
    U.enum(TBG_H, 'State', scope='PositionValue', prefix='PVState_')
    U.tr.typemap['State'] = 'S8'; U.tr.typemap['PositionValue::State'] = 'S8'
    U.struct(TBG_H, 'PositionValue', expect=[('State', 'state', '')], default_init='{-2}')
    for m, n in (('setMateInN', 1), ('setMatedInN', 1), ('setDraw', 0), ('isMateInN', 1), ('isMatedInN', 1), ('isDraw', 0), ('getMateInN', 1), ('getMatedInN', 1), ('isComputed', 0)):
        U.pull(TBG_H, 'PositionValue::' + m, nparams=n)
    U.fragment(TBG_C, 'TBGenerator_probeDTM_tail', r'int n;\s*if \(posVal\.getMateInN\(n\)\) \{', r'template class TBGenerator<VectorStorage>;',
               params=[('PositionValue', 'posVal', True), ('int', 'ply', False), ('int', 'score', True)], ret='bool',
               rules=[(r'return false;\s*\}\s*$', 'return false;', 1)])
    # on-demand probe block of TBProbe::tbProbe with rule50Margin / updateEvScore
    U.struct(TT_H, 'TTEntry', expect=[('U64', 'key', ''), ('U64', 'data', '')], default_init='{0, 0}')
    for m in ('getScore', 'setScore', 'getType', 'setType', 'getEvalScore', 'setEvalScore', 'setBits', 'getBits'):
        U.pull(TT_H, 'TranspositionTable::TTEntry::' + m, cname='TTEntry_' + m)
    U.tr.typemap['TranspositionTable::TTEntry'] = 'struct TTEntry'
    U.pull(TBP_C, 'updateEvScore', cname='updateEvScore')
    U.pull(TBP_C, 'rule50Margin', cname='rule50Margin')
    U.raw('_Bool ghost_probe_hit; int ghost_probe_score;   /* result of tt.probeDTM(pos, ply, dtmScore) */\n#define GHOST_NO_RETURN 77\n')
    U.passthrough('ghost_probe_hit', 'ghost_probe_score', 'GHOST_NO_RETURN')
    U.fragment(TBP_C, 'TBProbe_tbProbe_onDemand', r'bool hasDtm = false;', r'// Return true if an RTB WDL score|auto canUseRtbWdlScore',
               params=[('TranspositionTable::TTEntry', 'ent', True), ('int', 'ply', False), ('int', 'hmc', False), ('int', 'nPieces', False)], ret='int',
               rules=[(r'tt\.probeDTM\(pos, ply, dtmScore\)', '(dtmScore = ghost_probe_score, ghost_probe_hit)', 1),
                      (r'return timeAndReturn\(true\);', 'return 1;', 1)],
               epilogue='\n    return hasDtm ? 2 : GHOST_NO_RETURN;\n')
    # mate-distance pruning at the head of negaScout: from the start of the body to the first logging block
    U.fragment(S_C, 'Search_negaScout_mdp', r'\A', r'if \(logFile\.isOpened\(\)\) \{\s*const SearchTreeInfo& sti = searchTreeInfo\[ply-1\];', within='Search::negaScout', within_kw=dict(nparams=6, template=True),
               params=[('int', 'alpha', False), ('int', 'beta', True), ('int', 'ply', False)], ret='int', using_ns=('SearchConst',), epilogue='\n    return GHOST_NO_RETURN;\n')
    # how a tablebase probe result is used at a node of negaScout: (1) the cut-off decision, (2) the narrowing of the search window
    U.raw('int ghost_eval;   /* eval.evalPos() */\n')
    U.passthrough('ghost_eval')
    NS_KW = dict(within='Search::negaScout', within_kw=dict(nparams=6, template=True))
    U.fragment(S_C, 'Search_negaScout_tbDecide', r'int type = tbEnt\.getType\(\);', r'if \(cutOff\) \{\s*emptyMove\.setScore\(score\);', ret='bool', using_ns=('SearchConst',),
               params=[('TranspositionTable::TTEntry', 'tbEnt', True), ('int', 'ply', False), ('int', 'alpha', False), ('int', 'beta', False), ('int', 'depth', False), ('int', 'evalScore', True), ('int', 'out_score', True)],
               rules=[(r'eval\.evalPos\(\)', 'ghost_eval', 1)], epilogue='\n    out_score = score;\n    return cutOff;\n', **NS_KW)
    U.fragment(S_C, 'Search_negaScout_tbWindow', r'if \(\(type == TType::T_GE\) && \(score > alpha\)\) \{\s*tbScore = score;', r'\}\s*\}\s*if \(depth <= 0\) \{\s*q0Eval = evalScore;', using_ns=('SearchConst',),
               params=[('int', 'type', False), ('int', 'score', False), ('int', 'alpha', True), ('int', 'beta', True), ('int', 'tbScore', True), ('int', 'tbScoreType', True)], **NS_KW)
    ev = ClassInfo('Evaluate'); U.tr.add_class(ev)
    U.pull(EV_C, 'Evaluate::swindleScore', as_static=True)
    return U


SPEC = common.BIT_SPEC + r'''
#define MATE0 SearchConst_MATE0
static int spec_rec_type(U64 d)  { return (int)((d >> 46) & 3); }
static int spec_rec_eval(U64 d)  { U16 w = (U16)(d >> 48); return w >= 32768 ? (int)w - 65536 : (int)w; }
static int spec_rec_score(U64 d, int ply) {
    U16 w = (U16)(d >> 16); int sc = w >= 32768 ? (int)w - 65536 : (int)w;
    if (sc > MATE0 / 2) sc -= ply; else if (sc < -(MATE0 / 2)) sc += ply;
    return sc; }
int ghost_n;
'''
CONTRACTS = dict(common.BIT_CONTRACTS)
CONTRACTS.update({
    # internal score -> "mate N" as printed: MATE0 - 2n (side to move mates in n moves) -> n ; -(MATE0 - (2n+1)) (mated in n) -> -n
    'Search_notifyPV_scoreConv': {
        'requires': ['__CPROVER_is_fresh(score, sizeof(int))', '-MATE0 < *score && *score < MATE0'],
        'assigns': ['*score', 'ghost_isMate'],
        'ensures': ['(1 <= ghost_n && ghost_n <= 4000 && __CPROVER_old(*score) == MATE0 - 2 * ghost_n) ==> (ghost_isMate && *score == ghost_n)',
                    '(0 <= ghost_n && ghost_n <= 4000 && __CPROVER_old(*score) == -(MATE0 - (2 * ghost_n + 1))) ==> (ghost_isMate && *score == -ghost_n)',
                    '(__CPROVER_old(*score) <= MATE0 / 2 && __CPROVER_old(*score) >= -(MATE0 / 2)) ==> (!ghost_isMate && *score == __CPROVER_old(*score))',
                    'ghost_isMate ==> ((__CPROVER_old(*score) > 0) == (*score > 0 || __CPROVER_old(*score) == MATE0 - 1) )'],
    },
    'PositionValue_setMateInN': {'requires': ['__CPROVER_is_fresh(self, sizeof(*self))', '1 <= n && n <= 62'], 'assigns': ['self->state'],
                                 'ensures': ['self->state == 64 + n']},
    'PositionValue_setMatedInN': {'requires': ['__CPROVER_is_fresh(self, sizeof(*self))', '0 <= n && n <= 62'], 'assigns': ['self->state'],
                                  'ensures': ['self->state == 63 - n']},
    'PositionValue_getMateInN': {'requires': ['__CPROVER_is_fresh(self, sizeof(*self))', '__CPROVER_is_fresh(n, sizeof(int))'], 'assigns': ['*n'],
                                 'ensures': ['__CPROVER_return_value == (self->state > 64)', '__CPROVER_return_value ==> *n == self->state - 64']},
    'PositionValue_getMatedInN': {'requires': ['__CPROVER_is_fresh(self, sizeof(*self))', '__CPROVER_is_fresh(n, sizeof(int))'], 'assigns': ['*n'],
                                  'ensures': ['__CPROVER_return_value == (self->state <= 63 && self->state > 0)', '__CPROVER_return_value ==> *n == 63 - self->state']},
    'PositionValue_isDraw': {'requires': ['__CPROVER_is_fresh(self, sizeof(*self))'], 'assigns': [], 'ensures': ['__CPROVER_return_value == (self->state == 0)']},
    # table value -> search score: "mate in n at ply" prints as mate n at ply 0, "mated in n" as mate -n; draw -> 0; anything else is "not found"
    'TBGenerator_probeDTM_tail': {
        'requires': ['__CPROVER_is_fresh(posVal, sizeof(*posVal))', '__CPROVER_is_fresh(score, sizeof(int))', '0 <= ply && ply <= 700'],
        'assigns': ['*score'],
        'ensures': ['(posVal->state > 64) ==> (__CPROVER_return_value && *score == MATE0 - ply - 2 * (posVal->state - 64))',
                    '(posVal->state <= 63 && posVal->state > 0) ==> (__CPROVER_return_value && *score == -(MATE0 - ply - 2 * (63 - posVal->state) - 1))',
                    '(posVal->state == 0) ==> (__CPROVER_return_value && *score == 0)',
                    '(posVal->state < 0 || posVal->state == 64) ==> (!__CPROVER_return_value && *score == __CPROVER_old(*score))'],
    },
    'updateEvScore': {'requires': ['__CPROVER_is_fresh(ent, sizeof(*ent))', '-32768 <= newScore && newScore <= 32767'], 'assigns': ['ent->data'],
                      'ensures': ['spec_rec_eval(ent->data) == ((spec_rec_eval(__CPROVER_old(ent->data)) == 0 || STD_ABS(newScore) < STD_ABS(spec_rec_eval(__CPROVER_old(ent->data)))) ? newScore : spec_rec_eval(__CPROVER_old(ent->data)))',
                                  '(ent->data & 0x0000ffffffffffffULL) == (__CPROVER_old(ent->data) & 0x0000ffffffffffffULL)']},
    # on-demand probe: an exact mate score is stored only if the mate can be completed before the 50-move limit
    'TBProbe_tbProbe_onDemand': {
        'requires': ['__CPROVER_is_fresh(ent, sizeof(*ent))', '0 <= ply && ply <= 700', '0 <= hmc && hmc <= 200', '2 <= nPieces && nPieces <= 32',
                     # scores produced by probeDTM (see TBGenerator_probeDTM_tail): 0, MATE0 - ply - 2n, -(MATE0 - ply - 2n - 1) with 0 <= n <= 62
                     'ghost_probe_score == 0 || (ghost_probe_score <= MATE0 - ply - 2 && ghost_probe_score >= MATE0 - ply - 124) || (ghost_probe_score >= -(MATE0 - ply - 1) && ghost_probe_score <= -(MATE0 - ply - 125))'],
        'assigns': ['ent->data'],
        'ensures': [
            '(nPieces > 4 || !ghost_probe_hit) ==> (__CPROVER_return_value == GHOST_NO_RETURN && ent->data == __CPROVER_old(ent->data))',
            # plies still needed to mate: MATE0 - 1 - |score| - ply ; it must not exceed the 100 - hmc plies left
            '(nPieces <= 4 && ghost_probe_hit && (ghost_probe_score == 0 || (MATE0 - 1 - STD_ABS(ghost_probe_score) - ply) <= 100 - hmc)) ==> (__CPROVER_return_value == 1 && spec_rec_type(ent->data) == TType_T_EXACT && spec_rec_score(ent->data, ply) == ghost_probe_score)',
            '(nPieces <= 4 && ghost_probe_hit && ghost_probe_score != 0 && (MATE0 - 1 - STD_ABS(ghost_probe_score) - ply) > 100 - hmc) ==> (__CPROVER_return_value == 2 && spec_rec_score(ent->data, ply) == 0 && spec_rec_type(ent->data) == (ghost_probe_score > 0 ? TType_T_GE : TType_T_LE))',
        ],
    },
    # mate-distance pruning: the best score reachable from a node at `ply` is a mate delivered on the next ply, MATE0-(ply+1);
    # the node is cut (returning alpha) exactly when alpha already reaches the clipped beta
    'Search_negaScout_mdp': {
        'requires': ['__CPROVER_is_fresh(beta, sizeof(*beta))', '0 <= ply && ply <= 1000', '-MATE0 <= alpha && alpha <= MATE0', '-MATE0 <= *beta && *beta <= MATE0'],
        'assigns': ['*beta'],
        'ensures': ['*beta == (__CPROVER_old(*beta) < MATE0 - (ply + 1) ? __CPROVER_old(*beta) : MATE0 - (ply + 1))',
                    '(alpha >= *beta) ==> __CPROVER_return_value == alpha', '(alpha < *beta) ==> __CPROVER_return_value == GHOST_NO_RETURN'],
    },
    # C13: an exact tablebase mate score is returned unchanged (exact distance to mate); a tablebase draw yields a non-mate score within the
    # swindle range; a bound cuts only when it suffices for the window; no mate score is invented
    'Search_negaScout_tbDecide': {
        'requires': ['__CPROVER_is_fresh(tbEnt, sizeof(*tbEnt))', '__CPROVER_is_fresh(evalScore, sizeof(*evalScore))', '__CPROVER_is_fresh(out_score, sizeof(*out_score))',
                     '0 <= ply && ply <= 700', '-MATE0 <= alpha && alpha < beta && beta <= MATE0', '-32767 <= ghost_eval && ghost_eval <= 32767',
                     '*evalScore == SearchConst_UNKNOWN_SCORE || (-32767 <= *evalScore && *evalScore <= 32767)',
                     '1 <= spec_rec_type(tbEnt->data) && spec_rec_type(tbEnt->data) <= 3', '-1000 <= spec_rec_eval(tbEnt->data) && spec_rec_eval(tbEnt->data) <= 1000'],
        'assigns': ['tbEnt->data', '*evalScore', '*out_score'],
        'ensures': [
            # exact non-zero result (distance to mate known): always a cut-off with exactly that score and type
            '(spec_rec_type(__CPROVER_old(tbEnt->data)) == TType_T_EXACT && spec_rec_score(__CPROVER_old(tbEnt->data), ply) != 0) ==> (__CPROVER_return_value && *out_score == spec_rec_score(__CPROVER_old(tbEnt->data), ply) && spec_rec_type(tbEnt->data) == TType_T_EXACT)',
            # score 0 (draw, or a win/loss frustrated by the 50-move rule): whatever is returned on a cut-off is a non-mate score within the swindle range
            '(spec_rec_score(__CPROVER_old(tbEnt->data), ply) == 0 && __CPROVER_return_value) ==> (-SearchConst_maxFrustrated <= *out_score && *out_score <= SearchConst_maxFrustrated)',
            # a lower / upper bound cuts only if it decides the window
            '(spec_rec_type(__CPROVER_old(tbEnt->data)) == TType_T_GE && spec_rec_score(__CPROVER_old(tbEnt->data), ply) != 0 && __CPROVER_return_value) ==> (*out_score >= beta && *out_score == spec_rec_score(__CPROVER_old(tbEnt->data), ply))',
            '(spec_rec_type(__CPROVER_old(tbEnt->data)) == TType_T_LE && spec_rec_score(__CPROVER_old(tbEnt->data), ply) != 0 && __CPROVER_return_value) ==> (*out_score <= alpha && *out_score == spec_rec_score(__CPROVER_old(tbEnt->data), ply))',
            # the stored score is never changed
            'spec_rec_score(tbEnt->data, ply) == spec_rec_score(__CPROVER_old(tbEnt->data), ply)'],
    },
    # the search window is only narrowed, towards the tablebase bound, and the bound itself stays inside the window
    'Search_negaScout_tbWindow': {
        'requires': ['__CPROVER_is_fresh(alpha, sizeof(*alpha))', '__CPROVER_is_fresh(beta, sizeof(*beta))', '__CPROVER_is_fresh(tbScore, sizeof(*tbScore))', '__CPROVER_is_fresh(tbScoreType, sizeof(*tbScoreType))',
                     '-MATE0 <= *alpha && *alpha < *beta && *beta <= MATE0', '-MATE0 <= score && score <= MATE0', '0 <= type && type <= 3',
                     # not cut off before: a lower bound is below beta, an upper bound above alpha
                     '(type == TType_T_GE) ==> score < *beta', '(type == TType_T_LE) ==> score > *alpha'],
        'assigns': ['*alpha', '*beta', '*tbScore', '*tbScoreType'],
        'ensures': ['*alpha >= __CPROVER_old(*alpha) && *beta <= __CPROVER_old(*beta) && *alpha < *beta',
                    '(type == TType_T_GE && score > __CPROVER_old(*alpha)) ==> (*alpha == score - 1 && *tbScore == score && *tbScoreType == type)',
                    '(type == TType_T_LE && score < __CPROVER_old(*beta)) ==> (*beta == score + 1 && *tbScore == score && *tbScoreType == type)',
                    '(type == TType_T_EXACT || type == TType_T_EMPTY) ==> (*alpha == __CPROVER_old(*alpha) && *beta == __CPROVER_old(*beta))'],
    },
    'Evaluate_swindleScore': {
        'requires': ['-32767 <= evalScore && evalScore <= 32767', '-1000 <= distToWin && distToWin <= 1000'],
        'assigns': [],
        'ensures': ['-SearchConst_maxFrustrated <= __CPROVER_return_value && __CPROVER_return_value <= SearchConst_maxFrustrated',
                    'distToWin > 0 ==> __CPROVER_return_value >= SearchConst_minFrustrated', 'distToWin < 0 ==> __CPROVER_return_value <= -SearchConst_minFrustrated',
                    'distToWin == 0 ==> (STD_ABS(__CPROVER_return_value) < SearchConst_minFrustrated && ((evalScore >= 0) == (__CPROVER_return_value >= 0) || __CPROVER_return_value == 0))'],
    },
})
HARNESS = r'''
#ifdef CANARY
#define CANARY_POINT __CPROVER_assert(0, "canary: harness end reachable")
#else
#define CANARY_POINT
#endif
int nondet_int(void);
static void hv(void) { ghost_n = nondet_int(); ghost_isMate = (nondet_int() != 0); ghost_probe_hit = (nondet_int() != 0); ghost_probe_score = nondet_int(); }
void h_notifyPV(void) { int* s; hv(); Search_notifyPV_scoreConv(s); CANARY_POINT; }
void h_setMateInN(void) { struct PositionValue* v; int n; hv(); PositionValue_setMateInN(v, n); CANARY_POINT; }
void h_setMatedInN(void) { struct PositionValue* v; int n; hv(); PositionValue_setMatedInN(v, n); CANARY_POINT; }
void h_getMateInN(void) { struct PositionValue* v; int* n; hv(); PositionValue_getMateInN(v, n); CANARY_POINT; }
void h_getMatedInN(void) { struct PositionValue* v; int* n; hv(); PositionValue_getMatedInN(v, n); CANARY_POINT; }
void h_isDraw(void) { struct PositionValue* v; hv(); PositionValue_isDraw(v); CANARY_POINT; }
void h_probeDTM_tail(void) { struct PositionValue* v; int ply; int* sc; hv(); TBGenerator_probeDTM_tail(v, ply, sc); CANARY_POINT; }
void h_updateEvScore(void) { struct TTEntry* e; int s; hv(); updateEvScore(e, s); CANARY_POINT; }
void h_mdp(void) { int a, ply; int* b; hv(); Search_negaScout_mdp(a, b, ply); CANARY_POINT; }
void h_tbDecide(void) { struct TTEntry* e; int ply, a, b, d; int *ev, *os; hv(); ghost_eval = nondet_int(); Search_negaScout_tbDecide(e, ply, a, b, d, ev, os); CANARY_POINT; }
void h_tbWindow(void) { int t, sc; int *a, *b, *ts, *tt; hv(); Search_negaScout_tbWindow(t, sc, a, b, ts, tt); CANARY_POINT; }
void h_onDemand(void) { struct TTEntry* e; int ply, hmc, np; hv(); TBProbe_tbProbe_onDemand(e, ply, hmc, np); CANARY_POINT; }
void h_swindle(void) { int a, b; hv(); Evaluate_swindleScore(a, b); CANARY_POINT; }
'''
UNWIND = {'spec_popcount': 65, 'spec_lowest': 65, 'spec_highest': 65}
GROUPS = [
    Group('notifyPV_scoreConv', 'h_notifyPV', enforce='Search_notifyPV_scoreConv', min_props=3),
    Group('PositionValue_setMateInN', 'h_setMateInN', enforce='PositionValue_setMateInN', min_props=2),
    Group('PositionValue_setMatedInN', 'h_setMatedInN', enforce='PositionValue_setMatedInN', min_props=2),
    Group('PositionValue_getMateInN', 'h_getMateInN', enforce='PositionValue_getMateInN', min_props=2),
    Group('PositionValue_getMatedInN', 'h_getMatedInN', enforce='PositionValue_getMatedInN', min_props=2),
    Group('PositionValue_isDraw', 'h_isDraw', enforce='PositionValue_isDraw', min_props=1),
    Group('probeDTM_tail', 'h_probeDTM_tail', enforce='TBGenerator_probeDTM_tail', replace=('PositionValue_getMateInN', 'PositionValue_getMatedInN', 'PositionValue_isDraw'), min_props=3),
    Group('updateEvScore', 'h_updateEvScore', enforce='updateEvScore', min_props=3),
    Group('tbProbe_onDemand', 'h_onDemand', enforce='TBProbe_tbProbe_onDemand', min_props=5),
    Group('negaScout_mdp', 'h_mdp', enforce='Search_negaScout_mdp', min_props=3),
    Group('negaScout_tbDecide', 'h_tbDecide', enforce='Search_negaScout_tbDecide', replace=('Evaluate_swindleScore',), min_props=5),
    Group('negaScout_tbWindow', 'h_tbWindow', enforce='Search_negaScout_tbWindow', min_props=5),
    Group('swindleScore', 'h_swindle', enforce='Evaluate_swindleScore', replace=('BitUtil_lastBit',), min_props=3),
]
PROPERTIES = {
    'C04': ['notifyPV_scoreConv', 'probeDTM_tail', 'negaScout_mdp'],
    'C13': ['tbProbe_onDemand', 'updateEvScore', 'swindleScore', 'probeDTM_tail', 'notifyPV_scoreConv', 'negaScout_tbDecide', 'negaScout_tbWindow'],
    'C12': ['PositionValue_setMateInN', 'PositionValue_setMatedInN', 'PositionValue_getMateInN', 'PositionValue_getMatedInN', 'PositionValue_isDraw', 'probeDTM_tail'],
}

ASSUMPTIONS = {
 'C04': ['only the mate-score encoding chain is decided (hash store/load ply shift in unit tt, score -> "mate N" conversion, tablebase value -> score); that an announced mate is real needs the whole search and is NOT decided'],
 'C13': ['assumed: tt.probeDTM(pos, ply, score) yields 0, MATE0-ply-2n or -(MATE0-ply-2n-1) with n <= 62 (what TBGenerator_probeDTM_tail is proved to produce)',
         'only the probe-to-entry conversion of the on-demand block is decided; root move choice and shortest-mate play are NOT decided'],
 'C12': ['PositionValue encoding and the probe score conversion only; exactness of generated values is NOT decided'],
}
NOT_DECIDED = {
 'C04': ['soundness of the search itself (mate-distance pruning, null move, quiescence, aspiration re-searches)'],
 'C13': ['the search below a window narrowed by a probe bound, root move filtering (TBProbe::getSearchMoves), Syzygy/Gaviota paths'],
}
MUTANTS = [
    dict(name='tbDecide_bound_cut_too_early', file='lib/texellib/search.cpp', pattern=r'\(\(type == TType::T_GE\) && \(score >= beta\)\) \|\|', repl='((type == TType::T_GE) && (score > alpha)) ||', groups=['negaScout_tbDecide']),
    # (a mutant that also tests the cut-off for score-0 bounds at depth >= 16 survived: returning the sound bound 0 is not a C13 violation)
    dict(name='tbDecide_swindle_sign', file='lib/texellib/search.cpp', pattern=r'                    tbEnt.setType\(TType::T_GE\);\n                    score = -maxSwindle;', repl='                    tbEnt.setType(TType::T_GE);\n                    score = -maxSwindle - 1;', groups=['negaScout_tbDecide']),
    dict(name='tbWindow_alpha_off_by_one', file='lib/texellib/search.cpp', pattern=r'                alpha = score - 1;', repl='                alpha = score;', groups=['negaScout_tbWindow']),
    dict(name='tbWindow_beta_wrong_side', file='lib/texellib/search.cpp', pattern=r'                beta = score \+ 1;', repl='                beta = score - 1;', groups=['negaScout_tbWindow']),
    dict(name='notifyPV_win_round', file='lib/texellib/search.cpp', pattern=r'score = \(MATE0 - score\) / 2;', repl='score = (MATE0 - score) / 2 + 1;', groups=['notifyPV_scoreConv']),
    dict(name='notifyPV_lose_round', file='lib/texellib/search.cpp', pattern=r'score = -\(\(MATE0 \+ score - 1\) / 2\);', repl='score = -((MATE0 + score + 1) / 2);', groups=['notifyPV_scoreConv']),
    dict(name='probeDTM_mated_off_by_one', file='lib/texellib/tb/tbgen.cpp', pattern=r'score = -\(SearchConst::MATE0 - ply - n \* 2 - 1\);', repl='score = -(SearchConst::MATE0 - ply - n * 2);', groups=['probeDTM_tail']),
    dict(name='probeDTM_ply_sign', file='lib/texellib/tb/tbgen.cpp', pattern=r'score = SearchConst::MATE0 - ply - n \* 2;', repl='score = SearchConst::MATE0 + ply - n * 2;', groups=['probeDTM_tail']),
    dict(name='rule50_margin_99', file='lib/texellib/tb/tbprobe.cpp', pattern=r'int margin = \(100 - hmc\)', repl='int margin = (101 - hmc)', groups=['tbProbe_onDemand']),
    dict(name='rule50_margin_strict', file='lib/texellib/tb/tbprobe.cpp', pattern=r'rule50Margin\(dtmScore, ply, hmc, ent\) >= 0', repl='rule50Margin(dtmScore, ply, hmc, ent) > 0', groups=['tbProbe_onDemand']),
    dict(name='ondemand_bound_swapped', file='lib/texellib/tb/tbprobe.cpp', pattern=r'ent.setType\(dtmScore > 0 \? TType::T_GE : TType::T_LE\);', repl='ent.setType(dtmScore > 0 ? TType::T_LE : TType::T_GE);', groups=['tbProbe_onDemand']),
    dict(name='swindle_sign', file='lib/texellib/evaluate.cpp', pattern=r'int sgn = distToWin > 0 \? 1 : -1;', repl='int sgn = distToWin >= 0 ? -1 : 1;', groups=['swindleScore']),
    dict(name='swindle_cap', file='lib/texellib/evaluate.cpp', pattern=r'score = std::min\(score, minFrustrated - 1\);', repl='score = std::min(score, maxFrustrated + 10);', groups=['swindleScore']),
    dict(name='getMatedInN_bound', file='lib/texellib/tb/tbgen.hpp', pattern=r'if \(s > \(int\)State::MATED_IN_0 \|\| s <= \(int\)State::DRAW\)', repl='if (s > (int)State::MATED_IN_0 || s < (int)State::DRAW)', groups=['PositionValue_getMatedInN']),
]
