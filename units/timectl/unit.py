"""Unit timectl (C06): time-limit arithmetic of app/texel/enginecontrol.cpp and Search::timeLimit."""
from unitlib import Unit
from prove import Group, CHECKS, FLOAT_CHECKS

EC_C = 'app/texel/enginecontrol.cpp'
EC_H = 'app/texel/enginecontrol.hpp'
SP_H = 'app/texel/searchparams.hpp'
POS_H = 'lib/texellib/position.hpp'
S_H = 'lib/texellib/search.hpp'
S_C = 'lib/texellib/search.cpp'


def build():
    U = Unit('timectl')
    for p in ('timeMaxRemainingMoves', 'bufferTime', 'maxTimeUsage', 'timePonderHitRate', 'minTimeUsage'):
        U.param(p)
    U.struct(POS_H, 'Position', bases=('PositionBase',), only=['whiteMove'])
    U.struct(SP_H, 'SearchParams', typeover={'searchMoves': None},
             expect=[('std::vector<Move>', 'searchMoves', ''), ('int', 'wTime', ''), ('int', 'bTime', ''), ('int', 'wInc', ''),
                     ('int', 'bInc', ''), ('int', 'movesToGo', ''), ('int', 'depth', ''), ('int', 'nodes', ''), ('int', 'mate', ''),
                     ('int', 'moveTime', ''), ('bool', 'infinite', ''), ('S64', 'startTime', '')])
    U.struct(EC_H, 'EngineControl', only=['pos', 'ponder', 'onePossibleMove', 'infinite', 'minTimeLimit', 'maxTimeLimit',
                                          'earlyStopPercentage', 'maxDepth', 'maxNodes'])
    U.struct(S_H, 'Search', only=['tStart', 'minTimeMillis', 'maxTimeMillis', 'earlyStopPercentage', 'searchNeedMoreTime', 'hardFactor', 'maxNodes'])
    U.raw('''
int in_wTime, in_bTime, in_wInc, in_bInc, in_movesToGo, in_depth, in_nodes, in_mate, in_moveTime; _Bool in_infinite, in_whiteMove;   /* input mirrors for the native replay */
_Bool ghost_opt_ponder;        /* UCI option Ponder (UciParams::ponder->getBoolPar()) */
_Bool ghost_sc_nonnull;        /* stands for the shared_ptr `sc` being non-null */
int ghost_nmoves;              /* moves->size : number of legal root moves after searchmoves filtering */
int ghost_last_min, ghost_last_max, ghost_last_esp; _Bool ghost_delivered;  /* last limits handed to Search::timeLimit */
''')
    U.passthrough('ghost_opt_ponder', 'ghost_sc_nonnull', 'ghost_nmoves')
    U.stub('ghost_sc_timeLimit', 'void ghost_sc_timeLimit(int mn, int mx, int esp)')
    U.pull(POS_H, 'Position::isWhiteMove')
    U.pull(EC_C, 'EngineControl::computeTimeLimit',
           rules=[(r'UciParams::ponder->getBoolPar\(\)', 'ghost_opt_ponder', 1)])
    U.pull(EC_C, 'EngineControl::ponderHit',
           rules=[(r'if \(sc\)', 'if (ghost_sc_nonnull)', 1), (r'sc->timeLimit\(', 'ghost_sc_timeLimit(', 1)])
    # single-legal-move block of startThread: minTimeLimit/maxTimeLimit/maxDepth are the *parameters* of startThread
    U.fragment(EC_C, 'EngineControl_startThread_oneMove', r'onePossibleMove = false;',
               r'sc->timeLimit\(minTimeLimit, maxTimeLimit, earlyStopPercentage, startTime\);',
               params=[('int', 'minTimeLimit', True), ('int', 'maxTimeLimit', True), ('int', 'maxDepth', True)],
               cls='EngineControl', is_static=False,
               rules=[(r'moves->size', 'ghost_nmoves', 1)])
    U.pull(S_C, 'Search::timeLimit')
    # the time / node test of the periodic stop test Search::shouldStop (between the polling of helper results and the MaxNPS throttle)
    U.raw('S64 ghost_now, ghost_nodes;   /* currentTimeMillis(), getTotalNodes() */\n')
    U.passthrough('ghost_now', 'ghost_nodes')
    U.fragment(S_C, 'Search_shouldStop_time', r'S64 tNow = currentTimeMillis\(\);', r'if \(maxNPS > 0\) \{', within='Search::shouldStop', ret='bool', params=[], cls='Search', is_static=False,
               rules=[(r'currentTimeMillis\(\)', 'ghost_now', 1), (r'getTotalNodes\(\)', 'ghost_nodes', 1)], epilogue='\n    return false;\n')
    # the time test between iterations of iterativeDeepening, with the update of hardFactor
    U.fragment(S_C, 'Search_iterDeep_timeTest', r'S64 tNow = currentTimeMillis\(\);\s*\{\s*double f = ', r'if \(!firstIteration && !knownLoss && rootMoves\[maxPV - 1\]\.knownLoss\)', within='Search::iterativeDeepening',
               ret='bool', params=[('U64', 'ghost_rm_nodes', False), ('S64', 'totalNodes', False)], cls='Search', is_static=False,
               rules=[(r'currentTimeMillis\(\)', 'ghost_now', 1), (r'rootMoves\[0\]\.nodes', 'ghost_rm_nodes', 1), (r'\bbreak;', 'return true;', '1+')], epilogue='\n    return false;\n')
    return U


SPEC = r'''
#define IN_RANGE(p) (PARAM_MIN_##p <= p && p <= PARAM_MAX_##p)
/* domain of C06: clocks 1..10^7 ms, increments 0..10^5, movestogo 0..100, movetime 0 (absent) or 1..10^5 */
#define SPAR_DOMAIN(s) ( 1 <= (s)->wTime && (s)->wTime <= 10000000 && 1 <= (s)->bTime && (s)->bTime <= 10000000 \
   && 0 <= (s)->wInc && (s)->wInc <= 100000 && 0 <= (s)->bInc && (s)->bInc <= 100000 \
   && 0 <= (s)->movesToGo && (s)->movesToGo <= 100 && 0 <= (s)->moveTime && (s)->moveTime <= 100000 \
   && 0 <= (s)->depth && (s)->depth <= 1000000 && 0 <= (s)->mate && (s)->mate <= 1000000 && 0 <= (s)->nodes )
/* limits as Search::timeLimit receives them: both absent (-1), or 0 <= soft <= hard (computeTimeLimit / ponderHit / single-move clamp contracts) */
#define LIMITS_OK(sc) (((sc)->minTimeMillis == -1 && (sc)->maxTimeMillis == -1) || (0 <= (sc)->minTimeMillis && (sc)->minTimeMillis <= (sc)->maxTimeMillis && (sc)->maxTimeMillis <= 100000000))
#define MY_TIME(self, s) ((self)->pos.whiteMove ? (s)->wTime : (s)->bTime)
#define BUDGET(self, s) (MY_TIME(self, s) - STD_MIN(bufferTime, MY_TIME(self, s) * 9 / 10))
'''

_PARAMS_OK = 'IN_RANGE(timeMaxRemainingMoves) && IN_RANGE(bufferTime) && IN_RANGE(maxTimeUsage) && IN_RANGE(timePonderHitRate)'

CONTRACTS = {
    'EngineControl_computeTimeLimit': {
        'requires': ['__CPROVER_is_fresh(self, sizeof(*self))', '__CPROVER_is_fresh(sPar, sizeof(*sPar))',
                     'SPAR_DOMAIN(sPar)', _PARAMS_OK,
                     # input mirrors (ghost): make the counterexample readable from the trace
                     'in_wTime == sPar->wTime && in_bTime == sPar->bTime && in_wInc == sPar->wInc && in_bInc == sPar->bInc && in_movesToGo == sPar->movesToGo && in_depth == sPar->depth && in_nodes == sPar->nodes && in_mate == sPar->mate && in_moveTime == sPar->moveTime && in_infinite == sPar->infinite && in_whiteMove == self->pos.whiteMove',
                     '(sPar->infinite == 0 || sPar->infinite == 1) && (self->pos.whiteMove == 0 || self->pos.whiteMove == 1)'],
        'assigns': ['self->minTimeLimit, self->maxTimeLimit, self->earlyStopPercentage, self->maxDepth, self->maxNodes'],
        'ensures': [
            # fixed move time: both limits are exactly that time
            '(!sPar->infinite && sPar->moveTime > 0) ==> (self->minTimeLimit == sPar->moveTime && self->maxTimeLimit == sPar->moveTime)',
            # clock: 1 <= soft <= hard <= remaining clock minus the safety buffer
            '(!sPar->infinite && sPar->moveTime == 0) ==> (1 <= self->minTimeLimit && self->minTimeLimit <= self->maxTimeLimit && self->maxTimeLimit <= BUDGET(self, sPar))',
            'sPar->infinite ==> (self->minTimeLimit == -1 && self->maxTimeLimit == -1)',
        ],
    },
    'ghost_sc_timeLimit': {   # assumed contract: stands for Search::timeLimit (verified separately below)
        'assigns': ['ghost_last_min, ghost_last_max, ghost_last_esp, ghost_delivered'],
        'ensures': ['ghost_last_min == mn && ghost_last_max == mx && ghost_last_esp == esp && ghost_delivered'],
    },
    'EngineControl_ponderHit': {
        'requires': ['__CPROVER_is_fresh(self, sizeof(*self))',
                     '(self->minTimeLimit == -1 && self->maxTimeLimit == -1) || (1 <= self->minTimeLimit && self->minTimeLimit <= self->maxTimeLimit)',
                     '!ghost_delivered'],
        'assigns': ['self->minTimeLimit, self->maxTimeLimit, self->infinite, self->ponder, ghost_last_min, ghost_last_max, ghost_last_esp, ghost_delivered'],
        'ensures': [
            'ghost_sc_nonnull ==> (ghost_delivered && ghost_last_min == self->minTimeLimit && ghost_last_max == self->maxTimeLimit)',
            # limits never grow and keep 1 <= soft <= hard (or stay "no limit")
            '(self->minTimeLimit == -1 && self->maxTimeLimit == -1) || (1 <= self->minTimeLimit && self->minTimeLimit <= self->maxTimeLimit && self->maxTimeLimit <= __CPROVER_old(self->maxTimeLimit))',
            # single legal move: answer at once after ponderhit
            '(ghost_sc_nonnull && self->onePossibleMove && __CPROVER_old(self->maxTimeLimit) >= 1) ==> (self->minTimeLimit == 1 && self->maxTimeLimit == 1)',
            '!self->ponder',
        ],
    },
    'EngineControl_startThread_oneMove': {
        'requires': ['__CPROVER_is_fresh(self, sizeof(*self))', '__CPROVER_is_fresh(minTimeLimit, sizeof(int))',
                     '__CPROVER_is_fresh(maxTimeLimit, sizeof(int))', '__CPROVER_is_fresh(maxDepth, sizeof(int))',
                     '(*minTimeLimit == -1 && *maxTimeLimit == -1) || (1 <= *minTimeLimit && *minTimeLimit <= *maxTimeLimit)',
                     '0 <= ghost_nmoves && ghost_nmoves <= 256'],
        'assigns': ['*minTimeLimit, *maxTimeLimit, *maxDepth, self->onePossibleMove'],
        'ensures': [
            '(*minTimeLimit == -1 && *maxTimeLimit == -1) || (1 <= *minTimeLimit && *minTimeLimit <= *maxTimeLimit && *maxTimeLimit <= __CPROVER_old(*maxTimeLimit))',
            'self->onePossibleMove == (ghost_nmoves < 2 && !self->infinite)',
            # single legal move with a time limit: at most 100 ms
            '(ghost_nmoves < 2 && !self->infinite && !self->ponder && __CPROVER_old(*maxTimeLimit) > 0) ==> *maxTimeLimit <= 100',
        ],
    },
    # C06: once the hard limit is reached the periodic test says stop (for either kind of limit in force); an infinite search is not stopped by it
    'Search_shouldStop_time': {
        'requires': ['__CPROVER_is_fresh(self, sizeof(*self))', 'LIMITS_OK(self)', 'self->hardFactor >= 0.3 && self->hardFactor <= 3.5',
                     '0 <= self->tStart && self->tStart <= ghost_now && ghost_now <= (1LL << 60)', 'ghost_nodes >= 0'],
        'assigns': [],
        'ensures': ['(self->maxTimeMillis >= 0 && ghost_now - self->tStart >= self->maxTimeMillis) ==> __CPROVER_return_value',
                    '(self->maxNodes >= 0 && ghost_nodes >= self->maxNodes) ==> __CPROVER_return_value',
                    '(self->maxTimeMillis < 0 && self->maxNodes < 0) ==> !__CPROVER_return_value'],
    },
    # between iterations: hardFactor stays inside [0.3, 3.5]; the loop is left once the hard limit is reached
    'Search_iterDeep_timeTest': {
        'requires': ['__CPROVER_is_fresh(self, sizeof(*self))', 'LIMITS_OK(self)', 'self->hardFactor >= 0.3 && self->hardFactor <= 3.5',
                     '0 <= self->tStart && self->tStart <= ghost_now && ghost_now <= (1LL << 60)', '0 < totalNodes && totalNodes <= (1LL << 60)', 'ghost_rm_nodes <= (U64)totalNodes',
                     '0 < self->earlyStopPercentage && self->earlyStopPercentage <= 10000'],
        'assigns': ['self->hardFactor'],
        'ensures': ['self->hardFactor >= 0.3 && self->hardFactor <= 3.5',
                    '(self->maxTimeMillis >= 0 && ghost_now - self->tStart >= self->maxTimeMillis) ==> __CPROVER_return_value',
                    'self->maxTimeMillis < 0 ==> !__CPROVER_return_value'],
    },
    'Search_timeLimit': {
        'requires': ['__CPROVER_is_fresh(self, sizeof(*self))', 'IN_RANGE(minTimeUsage)'],
        'assigns': ['self->minTimeMillis, self->maxTimeMillis, self->earlyStopPercentage, self->tStart'],
        'ensures': ['self->minTimeMillis == minTimeLimit && self->maxTimeMillis == maxTimeLimit',
                    'self->earlyStopPercentage > 0',
                    'startTime != -1 ==> self->tStart == startTime', 'startTime == -1 ==> self->tStart == __CPROVER_old(self->tStart)'],
    },
}

HARNESS = r'''
#ifdef CANARY
#define CANARY_POINT __CPROVER_assert(0, "canary: harness end reachable")
#else
#define CANARY_POINT
#endif
int nondet_int(void); S64 nondet_s64(void);
static void havoc_globals(void) {
    timeMaxRemainingMoves = nondet_int(); bufferTime = nondet_int(); maxTimeUsage = nondet_int(); timePonderHitRate = nondet_int();
    in_wTime = nondet_int(); in_bTime = nondet_int(); in_wInc = nondet_int(); in_bInc = nondet_int(); in_movesToGo = nondet_int(); in_depth = nondet_int(); in_nodes = nondet_int();
    in_mate = nondet_int(); in_moveTime = nondet_int(); in_infinite = (nondet_int() != 0); in_whiteMove = (nondet_int() != 0);
    minTimeUsage = nondet_int(); ghost_opt_ponder = (nondet_int() != 0); ghost_sc_nonnull = (nondet_int() != 0); ghost_nmoves = nondet_int();
    ghost_now = nondet_s64(); ghost_nodes = nondet_s64();
    ghost_last_min = nondet_int(); ghost_last_max = nondet_int(); ghost_last_esp = nondet_int(); ghost_delivered = (nondet_int() != 0);
}
void h_ctl_noponder(void) { struct EngineControl* e; struct SearchParams* s; havoc_globals(); ghost_opt_ponder = 0;
    EngineControl_computeTimeLimit(e, s); CANARY_POINT; }
void h_ctl_ponder_default(void) { struct EngineControl* e; struct SearchParams* s; havoc_globals(); ghost_opt_ponder = 1;
    __CPROVER_assume(timePonderHitRate == PARAM_DEF_timePonderHitRate && maxTimeUsage == PARAM_DEF_maxTimeUsage && timeMaxRemainingMoves == PARAM_DEF_timeMaxRemainingMoves);
    EngineControl_computeTimeLimit(e, s); CANARY_POINT; }
void h_ctl_ponder_all(void) { struct EngineControl* e; struct SearchParams* s; havoc_globals(); ghost_opt_ponder = 1;
    EngineControl_computeTimeLimit(e, s); CANARY_POINT; }
void h_ponderHit(void) { struct EngineControl* e; havoc_globals(); EngineControl_ponderHit(e); CANARY_POINT; }
void h_oneMove(void) { struct EngineControl* e; int *a, *b, *c; havoc_globals(); EngineControl_startThread_oneMove(e, a, b, c); CANARY_POINT; }
void h_shouldStop(void) { struct Search* s; havoc_globals(); Search_shouldStop_time(s); CANARY_POINT; }
void h_iterTime(void) { struct Search* s; U64 a; S64 b; havoc_globals(); Search_iterDeep_timeTest(s, a, b); CANARY_POINT; }
void h_timeLimit(void) { struct Search* s; int a, b, c; S64 t; havoc_globals(); Search_timeLimit(s, a, b, c, t); CANARY_POINT; }
'''

_FL = CHECKS + ['--conversion-check'] + FLOAT_CHECKS
GROUPS = [
    Group('computeTimeLimit_noponder', 'h_ctl_noponder', enforce='EngineControl_computeTimeLimit', checks=_FL, min_props=20, timeout=3600),
    Group('computeTimeLimit_ponder_default', 'h_ctl_ponder_default', enforce='EngineControl_computeTimeLimit', checks=_FL, min_props=20, timeout=1500),
    Group('computeTimeLimit_ponder_all', 'h_ctl_ponder_all', enforce='EngineControl_computeTimeLimit', checks=_FL, min_props=20, timeout=3000, tier='thorough'),
    Group('ponderHit', 'h_ponderHit', enforce='EngineControl_ponderHit', replace=('ghost_sc_timeLimit',), min_props=5),
    Group('oneMove', 'h_oneMove', enforce='EngineControl_startThread_oneMove', min_props=5),
    Group('Search_timeLimit', 'h_timeLimit', enforce='Search_timeLimit', min_props=4),
    Group('shouldStop_time', 'h_shouldStop', enforce='Search_shouldStop_time', checks=_FL, min_props=4, timeout=3600),
    Group('iterDeep_timeTest', 'h_iterTime', enforce='Search_iterDeep_timeTest', checks=_FL, min_props=4, timeout=3600),
]
PROPERTIES = {'C06': [g.name for g in GROUPS]}
ASSUMPTIONS = {'C06': [
    'assumed contract: ghost_sc_timeLimit stands for the call sc->timeLimit(...) through a shared_ptr (Search::timeLimit itself is verified in group Search_timeLimit)',
    'UCI option Ponder, tunable parameters (TimeMaxRemainingMoves, BufferTime, MaxTimeUsage, TimePonderHitRate, MinTimeUsage) are symbolic inputs within their DECLARE_PARAM ranges read from parameters.hpp',
    'go parameters depth/mate <= 10^6, nodes >= 0 (not part of the property domain; needed for absence of overflow in mate*2-1)',
    'IEEE-754 double arithmetic as encoded bit-precisely by CBMC (round to nearest)',
]}
NOT_DECIDED = {'C06': ['the time test between root moves inside the first iteration loop (search.cpp:254-260) is not under contract', 'wall-clock delivery of the best move (polling interval, stop path, threads, MaxNPS sleeping) - needs execution, not a contract of a sequential function']}

MUTANTS = [
    dict(name='margin_factor', file='app/texel/enginecontrol.cpp', pattern=r'time \* 9 / 10', repl='time * 10 / 9', groups=['computeTimeLimit_noponder']),
    dict(name='no_final_clamp_max', file='app/texel/enginecontrol.cpp', pattern=r'maxTimeLimit = clamp\(maxTimeLimit, 1, time - margin\);', repl='maxTimeLimit = std::max(maxTimeLimit, 1);', groups=['computeTimeLimit_noponder']),
    dict(name='clamp_min_zero', file='app/texel/enginecontrol.cpp', pattern=r'minTimeLimit = clamp\(minTimeLimit, 1, time - margin\);', repl='minTimeLimit = clamp(minTimeLimit, 0, time - margin);', groups=['computeTimeLimit_noponder']),
    dict(name='ponder_bonus_unclamped', file='app/texel/enginecontrol.cpp', pattern=r'std::min\(oTimeLimit, timeLimit / \(1 - k\)\) \* k', repl='oTimeLimit * 1000000.0 * k', groups=['computeTimeLimit_ponder_default']),
    dict(name='movetime_max_double', file='app/texel/enginecontrol.cpp', pattern=r'minTimeLimit = maxTimeLimit = sPar.moveTime;', repl='minTimeLimit = sPar.moveTime; maxTimeLimit = sPar.moveTime * 2;', groups=['computeTimeLimit_noponder']),
    dict(name='ponderhit_no_clamp_max', file='app/texel/enginecontrol.cpp', pattern=r'if \(maxTimeLimit > 1\) maxTimeLimit = 1;', repl='', groups=['ponderHit']),
    dict(name='onemove_clamp_swapped', file='app/texel/enginecontrol.cpp', pattern=r'minTimeLimit = clamp\(minTimeLimit/100, 1, 100\);', repl='minTimeLimit = clamp(minTimeLimit/10, 1, 1000);', groups=['oneMove']),
    dict(name='wrong_side_clock', file='app/texel/enginecontrol.cpp', pattern=r'int time = white \? sPar.wTime : sPar.bTime;', repl='int time = white ? sPar.bTime : sPar.wTime;', groups=['computeTimeLimit_noponder']),
    dict(name='shouldStop_strict', file='lib/texellib/search.cpp', pattern=r'\(\(timeLimit >= 0\) && \(tNow - tStart >= timeLimit\)\)', repl='((timeLimit >= 0) && (tNow - tStart > timeLimit))', groups=['shouldStop_time']),
    dict(name='shouldStop_unclamped_soft', file='lib/texellib/search.cpp', pattern=r'minT = std::min\(\(S64\)\(minT \* hardFactor\), maxT\);', repl='minT = (S64)(minT * hardFactor);', groups=['shouldStop_time']),
    dict(name='iterDeep_hardFactor_average', file='lib/texellib/search.cpp', pattern=r'hardFactor = \(hardFactor \+ hard\) / 2;', repl='hardFactor = hardFactor + hard / 2;', groups=['iterDeep_timeTest']),
    dict(name='iterDeep_no_hard_test', file='lib/texellib/search.cpp', pattern=r'            if \(tNow - tStart >= maxTimeMillis\)\n                break;\n', repl='', groups=['iterDeep_timeTest']),
    dict(name='timelimit_swapped', file='lib/texellib/search.cpp', pattern=r'maxTimeMillis = maxTimeLimit;', repl='maxTimeMillis = minTimeLimit;', groups=['Search_timeLimit']),
]
