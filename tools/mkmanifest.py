#!/usr/bin/env python3
"""Regenerates MANIFEST.json from the table below (kept as code so that it stays valid)."""
import json, os
ROOT = os.path.dirname(os.path.dirname(os.path.abspath(__file__)))
TRUST = ('Trusted: CBMC 6.11.0 and its SAT back end; the cxx2c translation axioms (DESIGN 2.1: Square==int, SqTbl==array, '
         'references==non-null non-aliasing pointers, std::atomic relaxed load/store==plain 64-bit word access); the spec text in units/<unit>/unit.py; '
         'assumed contracts listed in the evidence file. ')
CHECKS = {
    'C08': dict(
        text='Deductive proof with CBMC code contracts (goto-instrument --dfcc) on the C text mechanically extracted from transpositionTable.hpp/.cpp on every run: '
             'setUsedSize (unbounded loop closed by a loop contract) establishes the index invariant for every size 512..2^44; getIndex is in range and bucket-aligned for every key; '
             'probe/insert are proved with the table object modelled as exactly the used prefix, so any access into a resident tablebase or outside the table fails the pointer check; '
             'insert changes at most one slot and the changed slot decodes to one complete record for exactly the key; store/load xor encoding; torn-read lemma over all word mixes of two writers; '
             'field independence of all accessors; ply shift of mate scores exact for every ply pair; TB byte region disjoint from the used part.',
        note=TRUST + 'Not decided: real thread interleavings (word atomicity of std::atomic<U64> is assumed, schedules are not explored); clear()/reSize() allocation paths; updateTB size arithmetic is covered under C12.',
        technique='CBMC function contracts + loop contract on extracted real code (dfcc), SAT back end',
        design='4.6'),
}
CHECKS['C06'] = dict(
    text='Deductive proof (CBMC contracts, bit-precise IEEE doubles) on the extracted text of EngineControl::computeTimeLimit, ponderHit, the single-legal-move block of startThread (fragment) and Search::timeLimit: '
         'for every clock 1..10^7, increment 0..10^5, movestogo 0..100, movetime 1..10^5, side to move, Ponder on/off and every declared value of BufferTime/TimeMaxRemainingMoves/MaxTimeUsage/TimePonderHitRate: '
         'no signed overflow, no NaN/inf, float->int conversions in range, movetime => soft==hard==movetime, clock => 1 <= soft <= hard <= clock - min(buffer, 0.9 clock); the single-move clamp and ponderhit keep 1 <= soft <= hard <= previous hard and deliver exactly those limits to the search.',
    note=TRUST + 'quick tier proves the ponder-on case at the default tunable values, thorough with all tunables symbolic (about 3 min). Not decided: wall-clock delivery (polling interval, stop path, threads, MaxNPS) - needs execution.',
    technique='CBMC function contracts on extracted real code (dfcc), floating point encoded bit-precisely, SAT back end',
    design='4.4')
NOT_APPLICABLE = {
    'C01': 'planned (DESIGN 4.1) but not built yet in this round; no claim until its first layer is green',
    'C02': 'planned (DESIGN 4.2) but not built yet',
    'C03': 'search-result legality is an invariant of iterativeDeepening/negaScout (templates, lambdas, exceptions, helper threads); no function-level contract in the translatable subset states it (DESIGN 5)',
    'C04': 'planned (DESIGN 4.3, lemmas only) but not built yet',
    'C05': 'UCI session contract is a property of command histories over a multi-threaded std::string/iostream controller; outside CBMC contracts (DESIGN 5)',
    'C06': 'planned (DESIGN 4.4) but not built yet',
    'C07': 'planned (DESIGN 4.5) but not built yet',
    'C09': 'data-race freedom is a memory-model property of thread interleavings; dfcc is sequential (DESIGN 5)',
    'C10': 'termination/lost-wake-up freedom over schedules is liveness; not a pre/postcondition of sequential functions (DESIGN 5)',
    'C11': 'planned (DESIGN 4.7) but not built yet',
    'C12': 'planned (DESIGN 4.8) but not built yet',
    'C13': 'planned (DESIGN 4.9) but not built yet',
    'C14': 'Clear Hash == fresh start is a 2-run relational property of whole-engine state across sessions (DESIGN 5)',
    'C15': 'reverse move generation lives in capturing lambdas and std::vector<UnMove>; lambda lifting is beyond the mechanical extractor and a hand translation would be a model (DESIGN 5)',
    'C16': 'proof-game soundness spans ~6000 lines of search over STL containers; not a per-function statement (DESIGN 5)',
    'C17': 'std::string parsing/formatting and PGN trees; CBMC has no usable model of libstdc++ strings (DESIGN 5)',
    'C18': 'planned (DESIGN 4.10) but not built yet',
    'C19': 'book-builder fixed point over std::map/set/function recursion on a pointer DAG after arbitrary histories (DESIGN 5)',
    'C20': 'planned (DESIGN 4.11) but not built yet',
}

def main():
    checks = []
    for pid in sorted(CHECKS):
        c = CHECKS[pid]
        checks.append({
            'property_id': pid,
            'quick_cmd': './check %s --tier quick' % pid,
            'thorough_cmd': './check %s --tier thorough' % pid,
            'evidence_file': '/verif/evidence/%s.json' % pid,
            'replay_cmd_template': './check replay {path}',
            'engine': 'cbmc-contracts',
            'level_claimed': {'category': 'proof', 'text': c['text'], 'design_ref': 'DESIGN.md section ' + c['design']},
            'level_note': c['note'],
            'technique': c['technique'],
        })
    man = {
        'version': 1,
        'setup_cmd': 'python3 tools/selftest.py',
        'hooks': {'guard': 'TEXEL_VERIF', 'enable': 'no source hooks: contracts are spliced into the text extracted from /repo at run time (DESIGN 2.1, 10)',
                  'baseline_off_cmd': 'cmake --build /repo/_build && ctest --test-dir /repo/_build -j8 --timeout 900',
                  'source_commits': [], 'add_only': True},
        'engines': [{'name': 'cbmc-contracts', 'path': '/verif/check', 'serves_properties': sorted(CHECKS),
                     'kind_free_text': 'tools/cxx2c.py extracts the named functions of /repo to C on every run; tools/prove.py drives goto-cc, goto-instrument --dfcc (function and loop contracts) and cbmc per obligation group'}],
        'checks': checks,
        'not_applicable': [{'property_id': k, 'reason': v} for k, v in sorted(NOT_APPLICABLE.items()) if k not in CHECKS],
        'notes': 'Contract-based deductive verification with CBMC 6.11 code contracts; see DESIGN.md. Exit codes of ./check: 0 held, 1 VIOLATION, 2 undecided (extraction broken, timeout, tool error).',
    }
    with open(os.path.join(ROOT, 'MANIFEST.json'), 'w') as f:
        json.dump(man, f, indent=1)

if __name__ == '__main__':
    main()
