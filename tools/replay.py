"""Counterexample -> replay file (+ native replay where a driver exists)."""
import os, json, re, subprocess, sys, hashlib

def make_replay(prop, r, f, root):
    name = re.sub(r'[^\w.\-]', '_', '%s-%s.%s-%s' % (prop, r['unit'], r['group'], f.get('property') or 'obligation'))[:150]
    path = os.path.join(root, 'replays', name + '.json')
    doc = {'property': prop, 'unit': r['unit'], 'group': r['group'], 'harness': r['harness'],
           'function_under_contract': r['enforce'], 'obligation': f.get('property'), 'obligation_text': f.get('description'),
           'generated_location': f.get('location'), 'inputs': f.get('inputs', {}), 'cbmc_cmd': r.get('cmd'),
           'verifier_output': f, 'native': None}
    reproduced = False
    try:
        drv = os.path.join(root, 'replay', r['unit'] + '_replay.py')
        if os.path.exists(drv):
            import importlib.util
            spec = importlib.util.spec_from_file_location('rp', drv)
            m = importlib.util.module_from_spec(spec); spec.loader.exec_module(m)
            res = m.replay(doc, root)
            doc['native'] = res
            reproduced = bool(res and res.get('reproduced'))
    except Exception as e:
        doc['native'] = {'error': str(e)}
    with open(path, 'w') as fh:
        json.dump(doc, fh, indent=1)
    return path, reproduced

def main(args):
    path = args[0]
    doc = json.load(open(path))
    root = os.path.dirname(os.path.dirname(os.path.abspath(__file__)))
    drv = os.path.join(root, 'replay', doc['unit'] + '_replay.py')
    if not os.path.exists(drv):
        print('no native replay driver for unit %s; verifier output:' % doc['unit'])
        print(json.dumps(doc['verifier_output'], indent=1)[:3000])
        return 1
    import importlib.util
    spec = importlib.util.spec_from_file_location('rp', drv)
    m = importlib.util.module_from_spec(spec); spec.loader.exec_module(m)
    res = m.replay(doc, root)
    print(json.dumps(res, indent=1))
    return 1 if res.get('reproduced') else 0
