// Native replay for unit timectl (C06): runs the real EngineControl::computeTimeLimit of /repo on the inputs of a
// CBMC counterexample and evaluates the same postcondition.  Exit 1 = violation reproduced, 0 = not reproduced.
#include "enginecontrol.hpp"
#include "searchparams.hpp"
#include "parameters.hpp"
#include <cstdio>
#include <cstdlib>
#include <cstring>
#include <new>
#include <algorithm>
template <int d, int mi, int ma> static bool setParam(Param<d, mi, ma, true>& p, int v) { p.value = v; return true; }
template <int d, int mi, int ma> static bool setParam(Param<d, mi, ma, false>& p, int v) { return v == d; }   // compile-time constant in this build
int main(int argc, char** argv) {
    if (argc < 17) { std::printf("usage: wTime bTime wInc bInc movesToGo depth nodes mate moveTime infinite whiteMove ponder tmrm buffer maxTimeUsage ponderHitRate\n"); return 2; }
    int a[16]; for (int i = 0; i < 16; i++) a[i] = std::atoi(argv[i + 1]);
    SearchParams sPar(0);
    sPar.wTime = a[0]; sPar.bTime = a[1]; sPar.wInc = a[2]; sPar.bInc = a[3]; sPar.movesToGo = a[4]; sPar.depth = a[5]; sPar.nodes = a[6];
    sPar.mate = a[7]; sPar.moveTime = a[8]; sPar.infinite = a[9] != 0;
    UciParams::ponder->set(a[11] ? "true" : "false");
    bool settable = setParam(timeMaxRemainingMoves, a[12]) & setParam(bufferTime, a[13]) & setParam(maxTimeUsage, a[14]) & setParam(timePonderHitRate, a[15]);
    if (!settable) std::printf("note: a tunable parameter of the counterexample is a compile-time constant in this build; replay uses the built-in value\n");
    // EngineControl cannot be constructed without network weights: use zeroed storage and construct only `pos` (computeTimeLimit touches nothing else)
    alignas(64) static char raw[sizeof(EngineControl)];
    std::memset(raw, 0, sizeof(raw));
    EngineControl* ec = reinterpret_cast<EngineControl*>(raw);
    new (&ec->pos) Position();
    ec->pos.setWhiteMove(a[10] != 0);
    ec->computeTimeLimit(sPar);
    int time = a[10] ? sPar.wTime : sPar.bTime;
    int budget = time - std::min((int)bufferTime, time * 9 / 10);
    std::printf("minTimeLimit=%d maxTimeLimit=%d budget=%d\n", ec->minTimeLimit, ec->maxTimeLimit, budget);
    bool ok = true;
    if (!sPar.infinite && sPar.moveTime > 0) ok = ec->minTimeLimit == sPar.moveTime && ec->maxTimeLimit == sPar.moveTime;
    else if (!sPar.infinite) ok = 1 <= ec->minTimeLimit && ec->minTimeLimit <= ec->maxTimeLimit && ec->maxTimeLimit <= budget;
    std::printf(ok ? "postcondition holds natively\n" : "VIOLATED natively: 1 <= soft <= hard <= budget (or movetime equality) fails\n");
    return ok ? 0 : 1;
}
