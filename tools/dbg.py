#!/usr/bin/env python3
"""debug helper: tools/dbg.py <unit> <group> [property-substring]  -> runs the group and prints the trace of the first failure"""
import sys, os, json, tempfile, re
HERE = os.path.dirname(os.path.abspath(__file__)); sys.path.insert(0, HERE)
import runcheck, prove
un, gname = sys.argv[1], sys.argv[2]
flt = sys.argv[3] if len(sys.argv) > 3 else ''
wd = tempfile.mkdtemp(prefix='dbg_', dir='/var/tmp')
m, U, cfile = runcheck.build_unit(un, wd, save=False)
g = [g for g in m.GROUPS if g.name == gname][0]
uw = dict(getattr(m, 'UNWIND', {})); uw.update(g.unwindset or {}); g.unwindset = uw
if g.loop_contracts:
    g.no_unwind_funcs = tuple(set(g.no_unwind_funcs) | set(k for k, v in m.CONTRACTS.items() if v.get('loops')))
import subprocess
orig = prove.run
def run2(cmd, timeout, mem_gb=24, cwd=None):
    r = orig(cmd, timeout, mem_gb, cwd)
    if cmd[0] == 'cbmc':
        open(os.path.join(wd, 'out.json'), 'w').write(r['out'])
    return r
prove.run = run2
cfile = runcheck.mmode_file(U, m, g, open(cfile).read(), wd) if g.mode == 'M' else cfile
r = prove.prove_group(cfile, g, wd)
print(r['status'], r['reason'], r['props'], r['ok'], r['secs'])
js = json.load(open(os.path.join(wd, 'out.json')))
for item in js:
    if 'result' in item:
        for p in item['result']:
            if p['status'] != 'SUCCESS' and flt in p['property']:
                print('FAILED', p['property'], p['description'][:400], p.get('sourceLocation', {}).get('line'))
                for st in p.get('trace', []):
                    if st.get('stepType') == 'assignment' and not st.get('hidden'):
                        lhs = st.get('lhs', '')
                        if lhs.startswith('__') or 'write_set' in lhs or 'car' in lhs:
                            continue
                        v = st.get('value', {})
                        print('   %s = %s   (%s:%s)' % (lhs, v.get('data', v.get('name', '?')) if isinstance(v, dict) else v, st.get('sourceLocation', {}).get('function'), st.get('sourceLocation', {}).get('line')))
                break
print('workdir', wd)
