"""native replay driver for unit csp (C20): bit-set primitives on the words and arguments of the CBMC trace"""
import subprocess, os, tempfile, re, sys

OPS = ('removeLarger', 'removeSmaller', 'setRange', 'setBit', 'clearBit', 'removeOdd', 'removeEven')


def replay(doc, root):
    fn = doc.get('function_under_contract') or ''
    mm = re.match(r'(Domain|ConstrSet)_(\w+)$', fn)
    if not mm or mm.group(2) not in OPS:
        return {'reproduced': False, 'note': 'no native driver for this function'}
    sys.path.insert(0, os.path.join(root, 'tools'))
    import replay as R
    vals = R.trace_values(doc, first=True)     # the operation modifies the set: inputs are the first values reported
    w = [0, 0, 0]
    found = False
    for k, v in vals.items():
        m2 = re.match(r'dynamic_object\$?\d*\.data\[(\d+)l?\]$', k)
        if m2 and int(m2.group(1)) < 3:
            w[int(m2.group(1))] = R.num(v); found = True
    if not found:
        return {'reproduced': False, 'note': 'set words not found in the trace'}
    a = R.num(vals.get('a'), 0); b = R.num(vals.get('b'), 0)
    out = tempfile.mkdtemp(prefix='replay_', dir=os.environ.get('VERIF_TMP', '/var/tmp'))
    try:
        repo = os.environ.get('VERIF_REPO', '/repo')
        exe = os.path.join(out, 'csp_replay')
        L = repo + '/lib/texellib'
        # bitSet.hpp is a header-only template (compiled from the tree under test); BitUtil's lookup tables come from the built library
        lib = next((p for p in (repo + '/_build/lib/texellib/libtexellib.a', '/repo/_build/lib/texellib/libtexellib.a') if os.path.exists(p)), None)
        if lib is None:
            return {'reproduced': False, 'note': 'libtexellib.a not found'}
        cmd = ['g++', '-std=c++11', '-O1', '-fno-access-control', '-pthread', '-I' + repo + '/lib/texelutillib'] + ['-I' + L + d for d in ('', '/util', '/hw', '/tb', '/nn', '/book', '/debug')] + \
              [os.path.join(root, 'replay', 'csp_replay.cpp'), lib, '-o', exe, '-lrt']
        c = subprocess.run(cmd, capture_output=True, text=True)
        if c.returncode != 0:
            return {'reproduced': False, 'note': 'native driver did not compile', 'stderr': c.stderr[-1200:]}
        args = [mm.group(1), mm.group(2), str(w[0]), str(w[1]), str(w[2]), str(a), str(b)]
        r = subprocess.run([exe] + args, capture_output=True, text=True, timeout=60)
        return {'reproduced': r.returncode == 1, 'args': args, 'stdout': r.stdout[-600:], 'rc': r.returncode}
    except Exception as e:
        return {'reproduced': False, 'note': 'replay driver error: %s' % e}
    finally:
        subprocess.run(['rm', '-rf', out])
