// Native replay for unit csp (C20): the bit-set primitives of bitSet.hpp in the two instantiations the solver uses, on the words and
// arguments of a CBMC counterexample.  Membership before/after is read with the real getBit; the expected set is the set semantics the
// contract states (e.g. removeLarger keeps exactly the members <= maxVal).  Exit 1 = violation reproduced, 0 = not reproduced, 2 = usage.
#include "bitSet.hpp"
#include <cstdio>
#include <cstdlib>
#include <cstring>
#include <string>
template <int N, int offs>
static int run(const std::string& op, const U64* w, int a, int b) {
    BitSet<N, offs> s, before;
    std::memcpy(&s, w, sizeof(s)); std::memcpy(&before, w, sizeof(before));   // -fno-access-control: the set is its words
    const int lo = offs, hi = offs + N;
    if (op == "removeLarger") { if (a < lo - 1 || a > 1000000) return 0; s.removeLarger(a); }
    else if (op == "removeSmaller") { if (a >= hi || a < -1000000) return 0; s.removeSmaller(a); }
    else if (op == "setRange") { if (a < lo || a >= hi || b < lo - 1 || b >= hi) return 0; s.setRange(a, b); }
    else if (op == "setBit") { if (a < lo || a >= hi) return 0; s.setBit(a); }
    else if (op == "clearBit") { if (a < lo || a >= hi) return 0; s.clearBit(a); }
    else if (op == "removeOdd") s.removeOdd();
    else if (op == "removeEven") s.removeEven();
    else { std::printf("no native driver for %s\n", op.c_str()); return 0; }
    int bad = 0;
    for (int e = lo; e < hi; e++) {
        bool was = before.getBit(e), is = s.getBit(e), want;
        if (op == "removeLarger") want = was && e <= a;
        else if (op == "removeSmaller") want = was && e >= a;
        else if (op == "setRange") want = (a <= e && e <= b);
        else if (op == "setBit") want = was || e == a;
        else if (op == "clearBit") want = was && e != a;
        else if (op == "removeOdd") want = was && (e % 2) == 0;
        else want = was && (e % 2) != 0;
        if (is != want) { if (bad < 5) std::printf("element %d: member before %d, after %d, expected %d\n", e, (int)was, (int)is, (int)want); bad++; }
    }
    std::printf("%s(%d, %d): %d elements differ from the set semantics\n", op.c_str(), a, b, bad);
    std::printf(bad ? "VIOLATED natively\n" : "postcondition holds natively\n");
    return bad ? 1 : 0;
}
int main(int argc, char** argv) {
    if (argc < 8) { std::printf("usage: Domain|ConstrSet op w0 w1 w2 a b\n"); return 2; }
    std::string cls = argv[1], op = argv[2];
    U64 w[3] = { std::strtoull(argv[3], nullptr, 10), std::strtoull(argv[4], nullptr, 10), std::strtoull(argv[5], nullptr, 10) };
    int a = std::atoi(argv[6]), b = std::atoi(argv[7]);
    return cls == "Domain" ? run<64, -16>(op, w, a, b) : run<192, 0>(op, w, a, b);
}
