#!/usr/bin/env python3
"""cxx2c - mechanical extraction of C-like C++ functions from /repo into C for CBMC.

Token-level rewriter (DESIGN.md section 2.1).  Everything that is not understood aborts with
ExtractError (=> exit 2, "extraction broken / undecided"), never a violation.

What is dropped / rewritten is documented per construct in DESIGN.md 2.1; the rules live in
`Translator`.  Units describe *what* to pull (data only).
"""
import re, os, hashlib

REPO = os.environ.get('VERIF_REPO', '/repo')


class ExtractError(Exception):
    pass


# ---------------------------------------------------------------------------------------------
# source loading
# ---------------------------------------------------------------------------------------------

def strip_comments(text):
    """Replace comments by blanks, keep newlines and string/char literals."""
    out = []
    i, n = 0, len(text)
    while i < n:
        c = text[i]
        if c == '/' and i + 1 < n and text[i + 1] == '/':
            j = text.find('\n', i)
            if j < 0:
                j = n
            out.append(' ' * (j - i))
            i = j
        elif c == '/' and i + 1 < n and text[i + 1] == '*':
            j = text.find('*/', i + 2)
            if j < 0:
                raise ExtractError('unterminated comment')
            seg = text[i:j + 2]
            out.append(re.sub(r'[^\n]', ' ', seg))
            i = j + 2
        elif c == '"' or c == "'":
            j = i + 1
            while j < n and text[j] != c:
                if text[j] == '\\':
                    j += 1
                j += 1
            out.append(text[i:j + 1])
            i = j + 1
        else:
            out.append(c)
            i += 1
    return ''.join(out)


class Source:
    _cache = {}

    def __init__(self, relpath):
        self.relpath = relpath
        self.path = os.path.join(REPO, relpath)
        try:
            with open(self.path, encoding='utf-8', errors='replace') as f:
                self.raw = f.read()
        except OSError as e:
            raise ExtractError('cannot read %s: %s' % (self.path, e))
        self.sha256 = hashlib.sha256(self.raw.encode('utf-8', 'replace')).hexdigest()
        self.text = strip_comments(self.raw)

    @classmethod
    def get(cls, relpath):
        key = (REPO, relpath)
        if key not in cls._cache:
            cls._cache[key] = Source(relpath)
        return cls._cache[key]

    @classmethod
    def reset(cls):
        cls._cache = {}

    def line_of(self, pos):
        return self.text.count('\n', 0, pos) + 1


def match_close(text, pos, open_c='(', close_c=')'):
    """text[pos] == open_c ; return index of the matching close (skips string/char literals)."""
    assert text[pos] == open_c, (text[pos - 10:pos + 10], open_c)
    depth = 0
    i, n = pos, len(text)
    while i < n:
        c = text[i]
        if c == '"' or c == "'":
            j = i + 1
            while j < n and text[j] != c:
                if text[j] == '\\':
                    j += 1
                j += 1
            i = j + 1
            continue
        if c == open_c:
            depth += 1
        elif c == close_c:
            depth -= 1
            if depth == 0:
                return i
        i += 1
    raise ExtractError('unbalanced %s at %d' % (open_c, pos))


def resolve_preproc(body, defines):
    """Resolve #if/#ifdef/#else/#endif inside an extracted text for the given define set."""
    if '#' not in body:
        return body
    out = []
    stack = []  # (active_before, taken)
    active = True
    for line in body.split('\n'):
        s = line.strip()
        if s.startswith('#'):
            d = s[1:].strip()
            m = re.match(r'(ifdef|ifndef|if|elif|else|endif)\b\s*(.*)', d)
            if not m:
                if active:
                    raise ExtractError('unsupported preprocessor line in body: ' + s)
                out.append('')
                continue
            kw, arg = m.group(1), m.group(2).strip()
            if kw in ('ifdef', 'ifndef', 'if'):
                if kw == 'ifdef':
                    v = arg in defines
                elif kw == 'ifndef':
                    v = arg not in defines
                else:
                    v = eval_pp(arg, defines)
                stack.append((active, v))
                active = active and v
            elif kw == 'elif':
                prev_active, taken = stack.pop()
                v = (not taken) and eval_pp(arg, defines)
                stack.append((prev_active, taken or v))
                active = prev_active and v
            elif kw == 'else':
                prev_active, taken = stack.pop()
                stack.append((prev_active, True))
                active = prev_active and not taken
            else:
                prev_active, _ = stack.pop()
                active = prev_active
            out.append('')
        else:
            out.append(line if active else '')
    if stack:
        raise ExtractError('unbalanced #if in body')
    return '\n'.join(out)


def eval_pp(expr, defines):
    e = expr
    e = re.sub(r'defined\s*\(\s*(\w+)\s*\)', lambda m: '1' if m.group(1) in defines else '0', e)
    e = re.sub(r'defined\s+(\w+)', lambda m: '1' if m.group(1) in defines else '0', e)
    e = re.sub(r'\b[A-Za-z_]\w*\b', lambda m: str(defines[m.group(0)]) if m.group(0) in defines and defines[m.group(0)] is not None else ('1' if m.group(0) in defines else '0'), e)
    e = e.replace('&&', ' and ').replace('||', ' or ').replace('!', ' not ')
    if not re.match(r'^[\s\dandort()<>=]*$', e):
        raise ExtractError('cannot evaluate preprocessor expression: ' + expr)
    try:
        return bool(eval(e))
    except Exception:
        raise ExtractError('cannot evaluate preprocessor expression: ' + expr)


# ---------------------------------------------------------------------------------------------
# locating things in a source file
# ---------------------------------------------------------------------------------------------

class FuncText:
    def __init__(self):
        self.ret = ''          # return type text
        self.params = ''       # text between ( )
        self.const = False
        self.init = ''         # constructor initialiser list text (without ':')
        self.body = ''         # text between { } (exclusive)
        self.line0 = 0
        self.line1 = 0
        self.template = ''     # template header text if any
        self.src = None
        self.static = False


def _skip_ws(text, i):
    n = len(text)
    while i < n and text[i].isspace():
        i += 1
    return i


def find_class_body(src, cls):
    """Return (start, end) offsets of the body of class/struct `cls` (exclusive of braces)."""
    for m in re.finditer(r'\b(?:class|struct|namespace)\s+' + re.escape(cls) + r'\b([^;{]*)\{', src.text):
        # skip forward declarations ("class X;") - they do not have '{' before ';'
        b = m.end() - 1
        e = match_close(src.text, b, '{', '}')
        return b + 1, e
    raise ExtractError('class %s not found in %s' % (cls, src.relpath))


def find_function(src, qual, nparams=None, index=0, template=None):
    """Find the definition of function `qual` (e.g. 'TranspositionTable::TTEntry::setBits' or a
    free function name).  Out-of-class definitions first, then in-class inline definitions."""
    text = src.text
    cands = []
    parts = qual.split('::')
    pats = [(r'(?<![\w:~])' + r'\s*::\s*'.join(re.escape(p) for p in parts) + r'\s*\(', None)]
    if len(parts) >= 2:
        # in-class definition: search only within the class body
        try:
            cb = find_class_body(src, parts[-2])
            pats.append((r'(?<![\w:~.>])' + re.escape(parts[-1]) + r'\s*\(', cb))
        except ExtractError:
            pass
    for pat, rng in pats:
        for m in re.finditer(pat, text):
            if rng and not (rng[0] <= m.start() < rng[1]):
                continue
            if rng:
                # must be directly at class-body depth
                seg = text[rng[0]:m.start()]
                if seg.count('{') != seg.count('}'):
                    continue
            po = m.end() - 1
            try:
                pc = match_close(text, po)
            except ExtractError:
                continue
            i = _skip_ws(text, pc + 1)
            ft = FuncText()
            mm = re.match(r'const\b', text[i:])
            if mm:
                ft.const = True
                i = _skip_ws(text, i + 5)
            mm = re.match(r'(noexcept|override)\b', text[i:])
            if mm:
                i = _skip_ws(text, i + len(mm.group(0)))
            if text[i] == ':' and text[i + 1] != ':':
                # constructor init list:  name(expr) , name(expr) ... {
                j = i + 1
                inits = []
                while True:
                    j = _skip_ws(text, j)
                    mm = re.match(r'[A-Za-z_]\w*', text[j:])
                    if not mm:
                        break
                    k = _skip_ws(text, j + len(mm.group(0)))
                    if text[k] not in '({':
                        break
                    kc = match_close(text, k, text[k], ')' if text[k] == '(' else '}')
                    inits.append((mm.group(0), text[k + 1:kc]))
                    j = _skip_ws(text, kc + 1)
                    if text[j] == ',':
                        j += 1
                        continue
                    break
                if text[j] != '{':
                    continue
                ft.init = inits
                i = j
            if text[i] != '{':
                continue
            bc = match_close(text, i, '{', '}')
            ft.params = text[po + 1:pc]
            ft.body = text[i + 1:bc]
            ft.line0 = src.line_of(m.start())
            ft.line1 = src.line_of(bc)
            # return type: text back to previous ';' '}' '{' or preprocessor line / access spec
            k = m.start()
            j = k
            while j > 0 and text[j - 1] not in ';{}':
                j -= 1
            head = text[j:k]
            head = re.sub(r'^\s*#[^\n]*\n', '', head, flags=re.M)
            head = re.sub(r'\b(public|private|protected)\s*:', '', head)
            tm = re.search(r'template\s*<([^>]*)>', head)
            if tm:
                ft.template = tm.group(1).strip()
                head = head[:tm.start()] + head[tm.end():]
            if re.search(r'\bstatic\b', head):
                ft.static = True
            head = re.sub(r'\b(inline|static|constexpr|explicit|virtual|friend)\b', '', head)
            ft.ret = ' '.join(head.split())
            ft.src = src
            np_ = len(split_top(ft.params, ',')) if ft.params.strip() and ft.params.strip() != 'void' else 0
            if nparams is not None and np_ != nparams:
                continue
            if template is not None and bool(ft.template) != bool(template):
                continue
            cands.append(ft)
        if cands:
            break
    if len(cands) <= index:
        raise ExtractError('function %s (nparams=%s, template=%s) not found in %s (%d candidates)'
                           % (qual, nparams, template, src.relpath, len(cands)))
    if len(cands) > 1 and index == 0 and nparams is None:
        raise ExtractError('function %s ambiguous in %s: %d definitions; give nparams/index'
                           % (qual, src.relpath, len(cands)))
    return cands[index]


def split_top(text, sep=','):
    """Split at top-level separators (not inside () [] {} <> for commas in template args)."""
    parts, depth, cur = [], 0, []
    i, n = 0, len(text)
    while i < n:
        c = text[i]
        if c in '"\'':
            j = i + 1
            while j < n and text[j] != c:
                if text[j] == '\\':
                    j += 1
                j += 1
            cur.append(text[i:j + 1])
            i = j + 1
            continue
        if c in '([{':
            depth += 1
        elif c in ')]}':
            depth -= 1
        if c == sep and depth == 0:
            parts.append(''.join(cur))
            cur = []
        else:
            cur.append(c)
        i += 1
    parts.append(''.join(cur))
    return parts


def find_fragment(src, start_re, end_re, include_end=False):
    """Statements between two anchors; each regex must match exactly once."""
    ms = list(re.finditer(start_re, src.text))
    if len(ms) != 1:
        raise ExtractError('fragment start anchor %r matches %d times in %s' % (start_re, len(ms), src.relpath))
    s = ms[0].start()
    me = list(re.finditer(end_re, src.text[ms[0].end():]))
    if len(me) < 1:
        raise ExtractError('fragment end anchor %r not found after start in %s' % (end_re, src.relpath))
    mall = list(re.finditer(end_re, src.text))
    if len(mall) != 1:
        raise ExtractError('fragment end anchor %r matches %d times in %s' % (end_re, len(mall), src.relpath))
    e = ms[0].end() + (me[0].end() if include_end else me[0].start())
    ft = FuncText()
    ft.body = src.text[s:e]
    ft.line0 = src.line_of(s)
    ft.line1 = src.line_of(e)
    ft.src = src
    return ft


def find_initializer(src, name_re):
    """Text of the brace initializer of a table definition  `... name[..] = { ... };`"""
    ms = list(re.finditer(name_re + r'[^;{=]*=\s*\{', src.text))
    if len(ms) != 1:
        raise ExtractError('initializer %r matches %d times in %s' % (name_re, len(ms), src.relpath))
    b = ms[0].end() - 1
    e = match_close(src.text, b, '{', '}')
    return src.text[b:e + 1]


def find_const(src, name, scope=None):
    """Value text of  `const T name = value;`  /  `static const T name = value;` / enumerator."""
    rng = (0, len(src.text))
    if scope:
        m = re.search(r'\b(?:class|struct|namespace)\s+' + re.escape(scope) + r'\b[^;{]*\{', src.text)
        if not m:
            raise ExtractError('scope %s not found in %s' % (scope, src.relpath))
        b = m.end() - 1
        rng = (b, match_close(src.text, b, '{', '}'))
    seg = src.text[rng[0]:rng[1]]
    ms = list(re.finditer(r'\b(?:const|constexpr)\b[^;=(){}]*?[\s&*]' + re.escape(name) + r'\s*=\s*([^;]+);', seg))
    if len(ms) == 1:
        return ' '.join(ms[0].group(1).split())
    ms = list(re.finditer(r'(?<=[{,])\s*' + re.escape(name) + r'\s*=\s*([^,}]+)[,}]', seg))
    if len(ms) == 1:
        return ' '.join(ms[0].group(1).split())
    raise ExtractError('constant %s (scope %s) found %d times in %s' % (name, scope, len(ms), src.relpath))


def find_fields(src, cls):
    """Data members of a class/struct: list of (type, name, dims-text).  Methods, nested types,
    static members, access specifiers are skipped."""
    b, e = find_class_body(src, cls)
    body = src.text[b:e]
    # remove nested braces (nested classes, inline method bodies, enums)
    flat, depth = [], 0
    i = 0
    while i < len(body):
        c = body[i]
        if c == '{':
            depth += 1
            if depth == 1:
                flat.append('{}')
        elif c == '}':
            depth -= 1
        elif depth == 0:
            flat.append(c)
        i += 1
    flat = ''.join(flat)
    flat = re.sub(r'^\s*#[^\n]*$', '', flat, flags=re.M)
    flat = re.sub(r'\b(public|private|protected)\s*:', ';', flat)
    fields = []
    for stmt in flat.split(';'):
        s = ' '.join(stmt.split())
        if not s or '(' in s or s.startswith(('static ', 'const static', 'constexpr ', 'friend', 'using', 'typedef', 'template', 'enum', 'class', 'struct')) or '{}' in s:
            # in-class default member initialisers with {} are not expected in pulled classes
            if '{}' in s and '=' in s and '(' not in s and not s.startswith(('enum', 'class', 'struct', 'static', 'union', 'friend', 'using', 'typedef', 'template')):
                s = s.replace('{}', '__BRACE_INIT__')   # member with brace initialiser: keep as a data member
            elif '{}' in s and '(' not in s and not s.startswith(('enum', 'class', 'struct', 'static', 'union')):
                raise ExtractError('unsupported member declaration in %s: %s' % (cls, s))
            else:
                continue
        s = re.sub(r'\bmutable\b', '', s).strip()
        s = re.sub(r'alignas\s*\([^)]*\)', '', s).strip()
        init = None
        if '=' in s:
            s, init = [x.strip() for x in s.split('=', 1)]
        # bit-field:  T name : N   (kept: C has the same construct; the width travels in the dims slot as ': N')
        bitw = None
        mb = re.match(r'(.+?[A-Za-z_]\w*)\s*:\s*(\d+)$', s)
        if mb and '::' not in s[mb.start(2) - 3:]:
            s, bitw = mb.group(1).strip(), mb.group(2)
        m = re.match(r'(.+?)\s*([A-Za-z_]\w*(?:\s*\[[^\]]*\])*(?:\s*,\s*[A-Za-z_]\w*(?:\s*\[[^\]]*\])*)*)$', s)
        if not m:
            raise ExtractError('cannot parse member of %s: %s' % (cls, s))
        ty = m.group(1).strip()
        for d in m.group(2).split(','):
            d = d.strip()
            mm = re.match(r'([A-Za-z_]\w*)(.*)$', d)
            fields.append((ty, mm.group(1), (': ' + bitw) if bitw else mm.group(2).strip(), init))
    return fields


# ---------------------------------------------------------------------------------------------
# tokens
# ---------------------------------------------------------------------------------------------

TOKEN_RE = re.compile(r'''
   (?P<ws>\s+)
 | (?P<id>[A-Za-z_]\w*)
 | (?P<num>(?:0[xX][0-9a-fA-F]+|\d+\.\d*(?:[eE][+-]?\d+)?|\.\d+(?:[eE][+-]?\d+)?|\d+(?:[eE][+-]?\d+)?)[uUlLfF]*)
 | (?P<str>"(?:\\.|[^"\\])*")
 | (?P<chr>'(?:\\.|[^'\\])*')
 | (?P<op>::|->|<<=|>>=|\+\+|--|<<|>>|<=|>=|==|!=|&&|\|\||\+=|-=|\*=|/=|%=|&=|\|=|\^=|\.\.\.|[-+*/%&|^~!=<>?:;,.(){}\[\]\#])
''', re.X)


def tokenize(text):
    toks = []
    i = 0
    for m in TOKEN_RE.finditer(text):
        if m.start() != i:
            raise ExtractError('cannot tokenize near: %r' % text[i:i + 30])
        i = m.end()
        toks.append((m.lastgroup, m.group(0)))
    if i != len(text):
        raise ExtractError('cannot tokenize near: %r' % text[i:i + 30])
    return toks


def untok(toks):
    return ''.join(t[1] for t in toks)


# ---------------------------------------------------------------------------------------------
# type environment
# ---------------------------------------------------------------------------------------------

SCALARS = {'int', 'bool', 'U64', 'S64', 'U32', 'S32', 'U16', 'S16', 'U8', 'S8', 'size_t', 'unsigned',
           'double', 'float', 'char', 'long', 'void', 'short', 'signed'}


class Param:
    def __init__(self, ctype, name, is_ref=False, is_const=False, is_ptr=False):
        self.ctype, self.name, self.is_ref, self.is_const, self.is_ptr = ctype, name, is_ref, is_const, is_ptr


class Func:
    """A function known to the translator (pulled, or declared as external stub)."""
    def __init__(self, cname, cls, name, ret, params, is_static, is_const=False, ret_ref=False, targs=False):
        self.cname, self.cls, self.name, self.ret, self.params = cname, cls, name, ret, params
        self.is_static, self.is_const, self.ret_ref, self.targs = is_static, is_const, ret_ref, targs
        self.text = None       # emitted C text of the definition
        self.proto = None
        self.ft = None
        self.sha = None


class ClassInfo:
    def __init__(self, name, cname=None, by_value=False, fields=None, default_init=None, statics=None):
        self.name = name
        self.cname = cname or name
        self.by_value = by_value          # Square: methods take self by value
        self.fields = fields or {}        # name -> (ctype, dims)
        self.statics = statics or {}      # static member name -> (C name, ctype, dims)
        self.default_init = default_init  # C initialiser text for `T x;`
        self.methods = {}                 # (name, nargs, targs) -> Func
        self.ref_fields = set()           # reference members (emitted as pointers)


class Translator:
    def __init__(self, defines=None):
        self.classes = {}
        self.funcs = {}        # free / static functions: (qual, nargs, targs) -> Func
        self.consts = {}       # 'A::B' -> C text (identifier or literal)
        self.typemap = {}      # C++ type name -> C type name
        self.defines = defines or {}
        self.rules_fired = {}
        self.log = []
        self.value_types = {'Square'}
        self.uf_tables = {}        # C table name -> number of indices: reads become uninterpreted-function applications UF_<name>(i, ..)
        self.variadic_or = set()   # (class, name): f(a, b, ...) == f(a) | f(b) | ...  (pinned variadic templates)
        self.tsubst = {}       # template parameter substitution during a pull
        self.aliases = {}      # `using X = ColorTraits<..>` aliases during a pull
        self.colortraits = None

    # ----- registration -----
    def add_class(self, ci):
        self.classes[ci.name] = ci
        return ci

    def is_class(self, t):
        return t in self.classes and not self.classes[t].by_value

    def ctype(self, cxx):
        """Map a C++ type text (already without const/&) to C."""
        t = ' '.join(cxx.replace('::', ' :: ').split()).replace(' :: ', '::')
        if t in self.typemap:
            return self.typemap[t]
        if t not in self.classes and '::' in t and t.split('::')[-1] in self.classes:
            t = t.split('::')[-1]
        if t in self.classes:
            ci = self.classes[t]
            return ci.cname if ci.by_value else 'struct ' + ci.cname
        base = t.split()
        if all(b in SCALARS or b in ('unsigned', 'long', 'const') for b in base):
            return t
        raise ExtractError('unknown type %r' % cxx)

    def base_type(self, cxx):
        """Canonical C++ class/scalar name used for method lookup."""
        t = cxx.replace('const', ' ').replace('&', ' ').replace('*', ' ').replace('struct', ' ')
        t = ' '.join(t.split())
        if t not in self.classes and '::' in t and t.split('::')[-1] in self.classes:
            t = t.split('::')[-1]
        return t

    def parse_params(self, ptext):
        params = []
        ptext = ptext.strip()
        if not ptext or ptext == 'void':
            return params
        for p in split_top(ptext, ','):
            p = ' '.join(p.split())
            if '=' in p:
                p = p.split('=')[0].strip()   # default argument dropped (call sites pass explicit args or unit wraps)
            m = re.match(r'^(.*?)([A-Za-z_]\w*)$', p)
            if not m:
                raise ExtractError('cannot parse parameter %r' % p)
            ty, name = m.group(1).strip(), m.group(2)
            is_ref = ty.endswith('&')
            is_ptr = ty.endswith('*')
            is_const = bool(re.search(r'\bconst\b', ty))
            ty = ty.rstrip('&*').strip()
            ty = re.sub(r'\bconst\b', '', ty).strip()
            params.append(Param(ty, name, is_ref, is_const, is_ptr))
        return params

    # ----- pulling functions -----
    def pull(self, relpath, qual, cname=None, nparams=None, index=0, tsubst=None, suffix='',
             rules=(), template=None, extra_locals=None, self_cls=None, as_static=None, type_alias=None):
        src = Source.get(relpath)
        ft = find_function(src, qual, nparams=nparams, index=index, template=template)
        parts = qual.split('::')
        name = parts[-1]
        cls = None
        for k in range(len(parts) - 1, 0, -1):
            if parts[k - 1] in self.classes:
                cls = parts[k - 1]
                break
        if self_cls:
            cls = self_cls
        if ft.template and not tsubst:
            raise ExtractError('%s is a template; give tsubst' % qual)
        is_ctor = cls is not None and name == cls
        is_static = ft.static
        if cls and not is_static and not is_ctor:
            # out-of-class definitions do not repeat `static`; look at the in-class declaration
            is_static = self._declared_static(cls, name)
        if as_static is not None:
            is_static = as_static
        if not cls:
            is_static = True
        params = self.parse_params(ft.params)
        ret = ft.ret
        if self_cls and type_alias:
            for p_ in params:
                if p_.ctype in type_alias:
                    p_.ctype = type_alias[p_.ctype]
            for a_, b_ in type_alias.items():
                ret = re.sub(r'\b%s\b' % re.escape(a_), b_, ret)
        ret_ref = ret.endswith('&')
        ret_c = re.sub(r'\bconst\b', '', ret.rstrip('&').strip()).strip()
        if is_ctor:
            ret_c = 'void'
        if cname is None:
            cname = '_'.join(p for p in parts if p) + suffix
        f = Func(cname, cls, name, ret_c, params, is_static, ft.const, ret_ref, bool(ft.template))
        f.ft = ft
        f.qual = qual
        f.is_ctor = is_ctor
        f.tsubst = tsubst or {}
        f.rules = list(rules)
        f.extra_locals = extra_locals or {}
        key = (name, len(params), bool(ft.template), suffix)
        if cls:
            self.classes[cls].methods.setdefault((name, len(params), bool(ft.template)), {})[suffix] = f
        else:
            self.funcs.setdefault((qual, len(params), bool(ft.template)), {})[suffix] = f
        # functions in a namespace/class used as pure scope (static)
        if cls is None and len(parts) > 1:
            pass
        return f

    def _declared_static(self, cls, name):
        ci = self.classes[cls]
        src = getattr(ci, 'src', None)
        if not src:
            return False
        try:
            b, e = find_class_body(src, cls)
        except ExtractError:
            return False
        body = src.text[b:e]
        for m in re.finditer(r'([^;{}]*)\b' + re.escape(name) + r'\s*\(', body):
            if re.search(r'\bstatic\b', m.group(1)):
                return True
        return False

    def declare(self, cname, cls, name, ret, params, is_static=True, ret_ref=False, targs=False, suffix=''):
        """Declare an external function (stub with assumed contract, or spec helper)."""
        ps = [Param(t, n, r) for (t, n, r) in params]
        f = Func(cname, cls, name, ret, ps, is_static, False, ret_ref, targs)
        f.external = True
        if cls:
            self.classes[cls].methods.setdefault((name, len(ps), targs), {})[suffix] = f
        else:
            self.funcs.setdefault((name, len(ps), targs), {})[suffix] = f
        return f

    # ----- translation of one function -----
    def translate(self, f):
        ft = f.ft
        body = resolve_preproc(ft.body, self.defines)
        env = {}
        self.tsubst = dict(f.tsubst)
        self.aliases = {}
        self.using_ns = list(getattr(f, 'using_ns', []))
        cls = self.classes.get(f.cls) if f.cls else None
        sig_params = []
        if cls and not f.is_static:
            if cls.by_value:
                sig_params.append('%s self' % cls.cname)
                env['self'] = ('val', cls.name)
            else:
                sig_params.append('%sstruct %s* self' % ('const ' if f.is_const else '', cls.cname))
                env['self'] = ('ptr', cls.name)
        for p in f.params:
            cty = self.ctype(p.ctype)
            if p.is_ref or (self.is_class(self.base_type(p.ctype)) and p.is_ptr):
                sig_params.append('%s%s* %s' % ('const ' if p.is_const else '', cty, p.name))
                env[p.name] = ('ptr', self.base_type(p.ctype))
            elif p.is_ptr:
                sig_params.append('%s%s* %s' % ('const ' if p.is_const else '', cty, p.name))
                env[p.name] = ('rawptr', self.base_type(p.ctype))
            else:
                sig_params.append('%s %s' % (cty, p.name))
                env[p.name] = ('val', self.base_type(p.ctype))
        for k, v in f.extra_locals.items():
            env[k] = v
        ret_c = 'void' if f.ret in ('void', '') else self.ctype(f.ret) + ('*' if f.ret_ref else '')
        self.cur = f
        self.cur_cls = cls
        self.env = env
        pre = ''
        if f.is_ctor and ft.init:
            for (nm, ex) in ft.init:
                if nm in cls.fields:
                    pre += '    self->%s = %s;\n' % (nm, self.tr_text(ex))
                else:
                    raise ExtractError('%s: constructor initialises unknown member %s' % (f.cname, nm))
        text = body
        text, n = re.subn(r'for\s*\(\s*Square\s+(\w+)\s*:\s*AllSquares\(\)\s*\)', r'for (Square \1 = 0; \1 != 64; ++\1)', text)
        if n:
            self.log.append('%s: range-for over AllSquares rewritten %d times (pinned axiom)' % (f.cname, n))
        for (pat, rep, cnt) in f.rules:
            text, n = re.subn(pat, rep, text)
            self._fired(f.cname, pat, n, cnt)
        ctext = self.tr_text(text)
        if f.ret_ref:
            # reference-returning function: returns a pointer in C
            ctext, nret = re.subn(r'\breturn\s+([^;]+);', r'return &(\1);', ctext)
            if nret == 0:
                raise ExtractError('%s: reference-returning function without return' % f.cname)
        f.proto = '%s %s(%s)' % (ret_c, f.cname, ', '.join(sig_params) if sig_params else 'void')
        f.body_c = pre + ctext
        f.sha = hashlib.sha256(ft.body.encode()).hexdigest()
        return f

    def _fired(self, where, pat, n, cnt):
        ok = (n == cnt) if isinstance(cnt, int) else (n >= int(cnt[:-1]))
        self.log.append('%s: rule %r fired %d (expected %s)' % (where, pat, n, cnt))
        if not ok:
            raise ExtractError('%s: must-fire rule %r fired %d times, expected %s' % (where, pat, n, cnt))

    # --- expression/statement text translation ---
    def tr_text(self, text):
        toks = [t for t in tokenize(text)]
        out = self.tr_tokens(toks)
        return out

    def tr_tokens(self, toks):
        out = []
        i, n = 0, len(toks)
        prev_sig = None   # previous significant token text
        while i < n:
            kind, tx = toks[i]
            if kind == 'ws':
                out.append(tx)
                i += 1
                continue
            if kind == 'id' and prev_sig not in ('.', '->'):
                j, text = self.tr_primary(toks, i, prev_sig)
                out.append(text)
                i = j
                prev_sig = ')'   # behaves like an operand
                continue
            if tx == '(':
                # parenthesised expression or cast; translate inside, then postfix
                j = self._match(toks, i)
                inner_toks = toks[i + 1:j]
                inner_txt = untok(inner_toks).strip()
                # C-style cast to a known type: (T)expr
                if self._is_type_text(inner_txt):
                    out.append('(' + self._cast_type(inner_txt) + ')')
                    i = j + 1
                    prev_sig = '(cast)'
                    continue
                inner = self.tr_tokens(inner_toks)
                ty = None
                if inner_txt == '*this':
                    ty = ('lv', self.cur_cls.name) if self.cur_cls else None
                text = '(' + inner + ')'
                j2, text, ty = self.tr_postfix(toks, j + 1, text, ty)
                out.append(text)
                i = j2
                prev_sig = ')'
                continue
            if tx == '::' and prev_sig not in (')',) and (i == 0 or toks[i - 1][0] != 'id'):
                # global-scope qualifier  ::name
                i += 1
                continue
            out.append(tx)
            prev_sig = tx
            i += 1
        return ''.join(out)

    def _is_type_text(self, s):
        s2 = re.sub(r'\bconst\b', '', s).strip()
        ptr = s2.endswith('*')
        s2 = s2.rstrip('*').strip()
        if not s2:
            return False
        if s2 in self.typemap or s2 in self.classes:
            return True
        return all(w in SCALARS for w in s2.split()) and bool(s2.split())

    def _cast_type(self, s):
        c = 'const ' if re.search(r'\bconst\b', s) else ''
        s2 = re.sub(r'\bconst\b', '', s).strip()
        stars = ''
        while s2.endswith('*'):
            stars += '*'
            s2 = s2[:-1].strip()
        return c + self.ctype(s2) + stars

    def _match(self, toks, i):
        op = toks[i][1]
        cl = {'(': ')', '[': ']', '{': '}', '<': '>'}[op]
        d = 0
        j = i
        while j < len(toks):
            t = toks[j][1]
            if t == op:
                d += 1
            elif t == cl:
                d -= 1
                if d == 0:
                    return j
            elif op == '<' and t == '>>':
                d -= 2
                if d <= 0:
                    return j
            j += 1
        raise ExtractError('%s: unbalanced %s' % (self.cur.cname, op))

    def _next_sig(self, toks, i):
        while i < len(toks) and toks[i][0] == 'ws':
            i += 1
        return i

    def _split_args(self, toks):
        args, cur, d = [], [], 0
        for t in toks:
            if t[1] in '([{':
                d += 1
            elif t[1] in ')]}':
                d -= 1
            if t[1] == ',' and d == 0:
                args.append(cur)
                cur = []
            else:
                cur.append(t)
        if untok(cur).strip() or args:
            args.append(cur)
        return args

    def _targ_suffix(self, toks):
        """Evaluate a template argument list like <wtm>, <!wtm>, <true> to a suffix."""
        s = untok(toks).strip()
        neg = False
        while s.startswith('!'):
            neg = not neg
            s = s[1:].strip()
        if s in self.tsubst:
            s = self.tsubst[s]
        if s in ('true', '1'):
            v = True
        elif s in ('false', '0'):
            v = False
        else:
            raise ExtractError('%s: cannot evaluate template argument %r' % (self.cur.cname, untok(toks)))
        if neg:
            v = not v
        return '_w' if v else '_b', v

    def _lookup(self, table, key):
        """table: dict key->{suffix: Func}"""
        return table.get(key)

    def _emit_call(self, fdict, suffix, recv_text, recv_ty, args_toks, what):
        anyf = next(iter(fdict.values()))
        if (anyf.cls, anyf.name) in self.variadic_or and len(anyf.params) == 1:
            args = self._split_args(args_toks)
            if len(args) > 1:
                parts = []
                ty = None
                for a in args:
                    t1, ty = self._emit_call(fdict, suffix, recv_text, recv_ty, a, what)
                    parts.append(t1)
                self.rules_fired['variadic_or'] = self.rules_fired.get('variadic_or', 0) + 1
                return '(' + ' | '.join(parts) + ')', ty
        if suffix not in fdict:
            if '' in fdict and len(fdict) == 1:
                suffix = ''
            else:
                raise ExtractError('%s: no instantiation %r of %s' % (self.cur.cname, suffix, what))
        f = fdict[suffix]
        args = self._split_args(args_toks)
        if len(args) != len(f.params):
            raise ExtractError('%s: call of %s with %d args, expected %d' % (self.cur.cname, what, len(args), len(f.params)))
        cargs = []
        if not f.is_static:
            cls = self.classes[f.cls]
            if cls.by_value:
                cargs.append(recv_text)
            else:
                cargs.append(recv_text if recv_ty == 'ptrtext' else '&(' + recv_text + ')')
        for a, p in zip(args, f.params):
            at = self.tr_tokens(a).strip()
            if p.is_ref or (p.is_ptr and self.is_class(self.base_type(p.ctype))):
                if p.is_ptr:
                    cargs.append(at)
                else:
                    cargs.append('&(' + at + ')')
            else:
                cargs.append(at)
        text = '%s(%s)' % (f.cname, ', '.join(cargs))
        if f.ret_ref:
            text = '(*' + text + ')'
        rty = self.base_type(f.ret) if f.ret not in ('void', '') else None
        return text, (('lv', rty) if rty else None)

    def tr_primary(self, toks, i, prev_sig):
        """toks[i] is an identifier starting a primary expression.  Returns (next_index, text)."""
        n = len(toks)
        # qualified name
        names = [toks[i][1]]
        j = i + 1
        while True:
            k = self._next_sig(toks, j)
            if k < n and toks[k][1] == '::':
                k2 = self._next_sig(toks, k + 1)
                if k2 < n and toks[k2][0] == 'id':
                    names.append(toks[k2][1])
                    j = k2 + 1
                    continue
            # template args directly after a name that is a known alias/ColorTraits/function template
            if k < n and toks[k][1] == '<' and names[-1] in ('ColorTraits',):
                e = self._match(toks, k)
                sfx, v = self._targ_suffix(toks[k + 1:e])
                names[-1] = 'ColorTraits<%s>' % ('true' if v else 'false')
                j = e + 1
                continue
            break
        qual = '::'.join(names)
        first = names[0]
        k = self._next_sig(toks, j)
        nxt = toks[k][1] if k < n else ''

        # template parameter substitution (bool wtm)
        if len(names) == 1 and first in self.tsubst and nxt != '(':
            v = self.tsubst[first]
            return self._post(toks, j, {'true': '1', 'false': '0'}.get(v, v), ('val', 'bool'))
        # using alias
        if first in self.aliases:
            names[0] = self.aliases[first]
            qual = '::'.join(names)
            first = names[0]
        if first in ('this',):
            k2 = self._next_sig(toks, j)
            return self._post(toks, j, 'self', ('ptr', self.cur_cls.name))
        if first == 'static_cast':
            e = self._match(toks, k)
            ty = untok(toks[k + 1:e]).strip()
            k2 = self._next_sig(toks, e + 1)
            e2 = self._match(toks, k2)
            inner = self.tr_tokens(toks[k2 + 1:e2])
            return e2 + 1, '((%s)(%s))' % (self._cast_type(ty), inner)
        if first == 'sizeof':
            return j, 'sizeof'
        if first == 'static_assert':
            e = self._match(toks, k)
            k2 = self._next_sig(toks, e + 1)
            if toks[k2][1] != ';':
                raise ExtractError('%s: static_assert without ;' % self.cur.cname)
            return k2 + 1, '/* static_assert dropped */'
        if first == 'using':
            # `using namespace X;`  or  `using A = ColorTraits<targ>;`
            e = j
            while toks[e][1] != ';':
                e += 1
            stmt = ' '.join(untok(toks[j:e]).split())
            m = re.match(r'^namespace (\w+)$', stmt)
            if m:
                self.using_ns.append(m.group(1))
                return e + 1, '/* using namespace %s */' % m.group(1)
            m = re.match(r'^(\w+) = ColorTraits<(.*)>$', stmt)
            if m:
                sfx, v = self._targ_suffix(tokenize(m.group(2)))
                self.aliases[m.group(1)] = 'ColorTraits<%s>' % ('true' if v else 'false')
                return e + 1, '/* using %s */' % stmt
            raise ExtractError('%s: unsupported using: %s' % (self.cur.cname, stmt))
        if qual in ('std::min', 'std::max', 'std::abs', 'std::swap') or (len(names) == 1 and first in ('clamp', 'abs') and nxt == '('):
            e = self._match(toks, k)
            args = [self.tr_tokens(a).strip() for a in self._split_args(toks[k + 1:e])]
            for a in args:
                if re.search(r'\+\+|--|(?<![=!<>])=(?!=)', a):
                    raise ExtractError('%s: side effect inside %s argument' % (self.cur.cname, qual))
            mac = {'std::min': 'STD_MIN', 'std::max': 'STD_MAX', 'std::abs': 'STD_ABS', 'std::swap': 'STD_SWAP', 'clamp': 'CLAMP', 'abs': 'STD_ABS'}[qual]
            text = '%s(%s)' % (mac, ', '.join('(' + a + ')' for a in args))
            return self._post(toks, e + 1, text, None)
        # constants
        if qual in self.consts and nxt != '(':
            return self._post(toks, j, self.consts[qual], None)
        # ColorTraits<..>::X
        if names[0].startswith('ColorTraits<') and len(names) == 2:
            v = names[0] == 'ColorTraits<true>'
            pn = ('W' if v else 'B') + names[1]
            key = 'Piece::' + pn
            if key not in self.consts:
                raise ExtractError('%s: unknown ColorTraits member %s' % (self.cur.cname, names[1]))
            if self.colortraits is not None:
                self.colortraits.add((v, names[1]))
            return self._post(toks, j, self.consts[key], None)
        # value-class constructors
        if len(names) == 1 and first in self.classes and self.classes[first].by_value and nxt == '(':
            e = self._match(toks, k)
            args = [self.tr_tokens(a).strip() for a in self._split_args(toks[k + 1:e])]
            ci = self.classes[first]
            text = ci.ctor(args)
            return self._post(toks, e + 1, text, ('val', first))
        # scalar functional cast  U64(x), int(x)
        if len(names) == 1 and (first in SCALARS or first in self.typemap) and nxt == '(' and prev_sig not in (None, ';', '{', '}', ',', '(') :
            e = self._match(toks, k)
            inner = self.tr_tokens(toks[k + 1:e])
            return self._post(toks, e + 1, '((%s)(%s))' % (self.ctype(first), inner), None)
        # declaration statement:  [const] T [&*] name ...
        if self._is_decl_start(toks, i, names, j, prev_sig):
            return self.tr_decl(toks, i, names, j)
        # function-template call  name<targs>(...)
        targs_sfx = None
        if nxt == '<':
            # only if name is a known template function
            cand = self._find_funcs(names, None, True)
            if cand:
                e = self._match(toks, k)
                targs_sfx, _ = self._targ_suffix(toks[k + 1:e])
                j = e + 1
                k = self._next_sig(toks, j)
                nxt = toks[k][1] if k < n else ''
        if nxt == '(':
            e = self._match(toks, k)
            nargs = len(self._split_args(toks[k + 1:e]))
            fd = self._find_funcs(names, nargs, targs_sfx is not None)
            if fd is not None:
                fdict, is_method = fd
                sfx = targs_sfx or ''
                if targs_sfx is None and len(fdict) > 1:
                    # non-template call of a function emitted in several instantiations: same suffix as caller
                    sfx = self.cur_suffix()
                text, ty = self._emit_call(fdict, sfx, 'self' if is_method else None,
                                           'ptrtext' if (is_method and not self.cur_cls.by_value) else None,
                                           toks[k + 1:e], qual)
                return self._post(toks, e + 1, text, ty)
            is_field = self.cur_cls is not None and (first in self.cur_cls.fields or first in self.cur_cls.statics)
            if len(names) > 1 or (first not in self.env and not is_field and first not in KEYWORDS and not first.startswith('__CPROVER') and first not in self.passthrough_calls()):
                raise ExtractError('%s: call of unknown function %s/%d' % (self.cur.cname, qual, nargs))
        # plain identifiers
        if len(names) == 1:
            if first in self.env:
                kind, ty = self.env[first]
                if kind == 'ptr':
                    return self._post(toks, j, '(*%s)' % first, ('lv', ty))
                return self._post(toks, j, first, ('lv', ty))
            if self.cur_cls is not None:
                ci = self.cur_cls
                if first in ci.fields and not self.cur.is_static:
                    fty = ci.fields[first][0]
                    if ci.by_value:
                        return self._post(toks, j, 'self', ('lv', 'int'))
                    if first in ci.ref_fields:
                        return self._post(toks, j, '(*self->%s)' % first, ('lv', fty))
                    return self._post(toks, j, 'self->%s' % first, ('lv', fty))
                if first in ci.statics:
                    cn, fty = ci.statics[first][0], ci.statics[first][1]
                    return self._post(toks, j, cn, ('lv', fty))
            if first in self.uf_tables:
                return self._post(toks, j, first, None)
            if first in KEYWORDS or first in SCALARS or first in self.typemap or first.startswith('__CPROVER') \
               or first in self.passthrough_idents():
                return j, self.typemap.get(first, first)
            if first in self.consts:
                return self._post(toks, j, self.consts[first], None)
            for sc in list(getattr(self.cur, 'qual', '').split('::')[:-1]) + self.using_ns:
                if sc + '::' + first in self.consts:
                    return self._post(toks, j, self.consts[sc + '::' + first], None)
            raise ExtractError('%s: unknown identifier %r' % (self.cur.cname, first))
        # qualified static member  Class::member
        if len(names) == 2 and names[0] in self.classes and names[1] in self.classes[names[0]].statics:
            cn, fty = self.classes[names[0]].statics[names[1]][0:2]
            return self._post(toks, j, cn, ('lv', fty))
        if qual in self.typemap:
            return j, self.typemap[qual]
        raise ExtractError('%s: unknown qualified name %r' % (self.cur.cname, qual))

    def cur_suffix(self):
        m = re.search(r'(_w|_b)$', self.cur.cname)
        return m.group(1) if m else ''

    def passthrough_idents(self):
        return getattr(self, '_pt_idents', set())

    def passthrough_calls(self):
        return getattr(self, '_pt_calls', set())

    def _find_funcs(self, names, nargs, targs):
        """Return (dict suffix->Func, is_method_of_self) or None."""
        name = names[-1]
        def pick(table, keyname):
            if nargs is None:
                for (nm, na, tg), v in table.items():
                    if nm == keyname and tg == targs:
                        return v
                return None
            r = table.get((keyname, nargs, targs))
            if r is None and nargs > 1:
                r1 = table.get((keyname, 1, targs))
                if r1 is not None:
                    f1 = next(iter(r1.values()))
                    if (f1.cls, f1.name) in self.variadic_or:
                        r = r1
            return r
        if len(names) == 1:
            if self.cur_cls is not None:
                r = pick(self.cur_cls.methods, name)
                if r is not None:
                    anyf = next(iter(r.values()))
                    return r, (not anyf.is_static)
            r = pick(self.funcs, name)
            if r is not None:
                return r, False
            for ns in self.using_ns:
                r = pick(self.funcs, ns + '::' + name)
                if r is not None:
                    return r, False
            return None
        cls = names[-2]
        if cls in self.classes:
            r = pick(self.classes[cls].methods, name)
            if r is not None:
                anyf = next(iter(r.values()))
                if not anyf.is_static:
                    if self.cur_cls is not None and self.cur_cls.name == cls and not self.cur.is_static:
                        return r, True
                    raise ExtractError('%s: qualified call of non-static %s' % (self.cur.cname, '::'.join(names)))
                return r, False
        r = pick(self.funcs, '::'.join(names))
        if r is not None:
            return r, False
        return None

    def _post(self, toks, j, text, ty):
        j2, text, ty = self.tr_postfix(toks, j, text, ty)
        return j2, text

    def tr_postfix(self, toks, j, text, ty):
        """Handle  .field  .method(args)  ->  [expr]  chains.  ty = (kind, C++ type name) or None."""
        n = len(toks)
        while True:
            k = self._next_sig(toks, j)
            if k >= n:
                return j, text, ty
            t = toks[k][1]
            if t in ('.', '->'):
                k2 = self._next_sig(toks, k + 1)
                if toks[k2][0] != 'id':
                    raise ExtractError('%s: expected member name after %s' % (self.cur.cname, t))
                mname = toks[k2][1]
                k3 = self._next_sig(toks, k2 + 1)
                tyname = ty[1] if ty else None
                if tyname is None:
                    raise ExtractError('%s: member access .%s on expression of unknown type: %s' % (self.cur.cname, mname, text))
                if t == '->':
                    text = '(*' + text + ')'
                    if tyname.endswith('*'):
                        tyname = tyname[:-1].strip()
                if tyname.startswith('atomic<') or tyname.startswith('RelaxedShared<'):
                    # std::atomic load/store with relaxed order -> plain access (A-ATOMIC)
                    e = self._match(toks, k3)
                    args = self._split_args(toks[k3 + 1:e])
                    inner_ty = tyname[tyname.index('<') + 1:-1]
                    if mname in ('load', 'get'):
                        if mname == 'load' and untok(args[0]).strip() != 'std::memory_order_relaxed':
                            raise ExtractError('%s: atomic load with unexpected order' % self.cur.cname)
                        self.rules_fired['atomic'] = self.rules_fired.get('atomic', 0) + 1
                        j = e + 1
                        ty = ('lv', inner_ty)
                        continue
                    if mname in ('store', 'set'):
                        if mname == 'store' and untok(args[1]).strip() != 'std::memory_order_relaxed':
                            raise ExtractError('%s: atomic store with unexpected order' % self.cur.cname)
                        self.rules_fired['atomic'] = self.rules_fired.get('atomic', 0) + 1
                        text = '%s = (%s)' % (text, self.tr_tokens(args[0]).strip())
                        j = e + 1
                        ty = None
                        continue
                    raise ExtractError('%s: unsupported atomic operation %s' % (self.cur.cname, mname))
                if tyname.startswith('std::vector<') or tyname.startswith('vector<'):
                    if mname == 'size' and k3 < n and toks[k3][1] == '(':
                        e = self._match(toks, k3)
                        text = '%s.size' % text
                        ty = ('lv', 'int')
                        j = e + 1
                        continue
                    raise ExtractError('%s: std::vector member %s is outside the translatable subset' % (self.cur.cname, mname))
                if tyname not in self.classes:
                    raise ExtractError('%s: member access .%s on non-class type %s (%s)' % (self.cur.cname, mname, tyname, text))
                ci = self.classes[tyname]
                if k3 < n and toks[k3][1] == '(' and not (mname in ci.fields and not any(k_[0] == mname for k_ in ci.methods)):
                    e = self._match(toks, k3)
                    nargs = len(self._split_args(toks[k3 + 1:e]))
                    fdict = ci.methods.get((mname, nargs, False))
                    if fdict is None and nargs > 1 and (tyname, mname) in self.variadic_or:
                        fdict = ci.methods.get((mname, 1, False))
                    if fdict is None:
                        raise ExtractError('%s: unknown method %s::%s/%d' % (self.cur.cname, tyname, mname, nargs))
                    text, ty = self._emit_call(fdict, '', text, None, toks[k3 + 1:e], tyname + '::' + mname)
                    j = e + 1
                    continue
                if mname in ci.fields:
                    if ci.by_value:
                        ty = ('lv', 'int')
                    else:
                        text = '%s.%s' % (text, mname)
                        ty = ('lv', ci.fields[mname][0])
                    j = k2 + 1
                    continue
                raise ExtractError('%s: unknown member %s::%s' % (self.cur.cname, tyname, mname))
            if t == '(' and ty and ty[1] in self.classes and any(k_[0] == 'operator()' for k_ in self.classes[ty[1]].methods):
                e = self._match(toks, k)
                nargs = len(self._split_args(toks[k + 1:e]))
                fdict = self.classes[ty[1]].methods.get(('operator()', nargs, False))
                if fdict is None:
                    raise ExtractError('%s: no operator()/%d on %s' % (self.cur.cname, nargs, ty[1]))
                text, ty = self._emit_call(fdict, '', text, None, toks[k + 1:e], ty[1] + '::operator()')
                j = e + 1
                continue
            if t == '[' and text in self.uf_tables:
                idxs = []
                kk = k
                for _ in range(self.uf_tables[text]):
                    kk = self._next_sig(toks, kk)
                    if kk >= n or toks[kk][1] != '[':
                        raise ExtractError('%s: table %s used with too few indices' % (self.cur.cname, text))
                    e = self._match(toks, kk)
                    idxs.append(self.tr_tokens(toks[kk + 1:e]).strip())
                    kk = e + 1
                self.rules_fired['uf_reads'] = self.rules_fired.get('uf_reads', 0) + 1
                text = 'UF_%s(%s)' % (text, ', '.join(idxs))
                ty = None
                j = kk
                continue
            if t == '[':
                e = self._match(toks, k)
                idx = self.tr_tokens(toks[k + 1:e])
                tyname = ty[1] if ty else None
                if tyname in self.classes and (('operator[]', 1, False) in self.classes[tyname].methods):
                    fdict = self.classes[tyname].methods[('operator[]', 1, False)]
                    text, ty = self._emit_call(fdict, '', text, None, toks[k + 1:e], tyname + '::operator[]')
                    j = e + 1
                    continue
                if tyname and (tyname.startswith('vector<') or tyname.startswith('std::vector<')):
                    text = '%s.data[%s]' % (text, idx)
                    ty = ('lv', tyname[tyname.index('<') + 1:-1].strip())
                    j = e + 1
                    continue
                text = '%s[%s]' % (text, idx)
                if tyname and tyname.endswith(']'):
                    # array type  "T[n][m]" -> strip first dimension
                    mm = re.match(r'^(.*?)\[[^\]]*\](.*)$', tyname)
                    ety = (mm.group(1) + mm.group(2)).strip()
                    ty = ('lv', ety)
                elif tyname and tyname.endswith('*'):
                    ty = ('lv', tyname[:-1].strip())
                else:
                    ty = None
                j = e + 1
                continue
            return j, text, ty

    # --- declarations ---
    def _is_decl_start(self, toks, i, names, j, prev_sig):
        if prev_sig not in (None, ';', '{', '}', ')', '(', 'else', ':'):
            return False
        first = names[0]
        q = '::'.join(names)
        if first == 'const' and len(names) == 1:
            return True
        if q in ('unsigned', 'signed', 'long', 'short') :
            return self._looks_decl(toks, j)
        if q in SCALARS or q in self.typemap or q in self.classes:
            return self._looks_decl(toks, j)
        return False

    def _looks_decl(self, toks, j):
        k = self._next_sig(toks, j)
        n = len(toks)
        while k < n and (toks[k][1] in ('&', '*', 'const') or toks[k][1] in SCALARS):
            k = self._next_sig(toks, k + 1)
        if k < n and toks[k][0] == 'id':
            k2 = self._next_sig(toks, k + 1)
            if k2 < n and toks[k2][1] in ('=', ';', ',', '(', '[', ':', '{'):
                return True
        return False

    def tr_decl(self, toks, i, names, j):
        """Translate one declaration statement up to and including its ';' (or up to ':' / ')' in a
        for-header).  Registers locals in env."""
        n = len(toks)
        is_const = False
        k = i
        tywords = []
        # collect type words
        while True:
            k = self._next_sig(toks, k)
            kind, tx = toks[k]
            if tx == 'const':
                is_const = True
                k += 1
                continue
            if kind == 'id':
                # qualified?
                q = [tx]
                k2 = k + 1
                while True:
                    k3 = self._next_sig(toks, k2)
                    if k3 < n and toks[k3][1] == '::':
                        k4 = self._next_sig(toks, k3 + 1)
                        q.append(toks[k4][1])
                        k2 = k4 + 1
                        continue
                    break
                qq = '::'.join(q)
                if qq in SCALARS or qq in self.typemap or qq in self.classes:
                    # is the next significant token an identifier or & * ?  then this is (part of) the type
                    k3 = self._next_sig(toks, k2)
                    if tywords and not (qq in SCALARS):
                        break
                    tywords.append(qq)
                    k = k2
                    continue
            break
        cxxty = ' '.join(tywords)
        out = []
        first = True
        while True:
            k = self._next_sig(toks, k)
            ref = ptr = False
            while toks[k][1] in ('&', '*', 'const'):
                if toks[k][1] == '&':
                    ref = True
                elif toks[k][1] == '*':
                    ptr = True
                k = self._next_sig(toks, k + 1)
            if toks[k][0] != 'id':
                raise ExtractError('%s: cannot parse declaration of type %s' % (self.cur.cname, cxxty))
            name = toks[k][1]
            if self.cur_cls is not None and name in self.cur_cls.fields and not self.cur.is_static:
                raise ExtractError('%s: local %s shadows a member' % (self.cur.cname, name))
            k = self._next_sig(toks, k + 1)
            bty = cxxty
            cty = self.ctype(cxxty)
            dims = ''
            while toks[k][1] == '[':
                e = self._match(toks, k)
                dims += '[' + self.tr_tokens(toks[k + 1:e]) + ']'
                k = self._next_sig(toks, e + 1)
            init = None
            t = toks[k][1]
            if t == '=':
                # initialiser up to top-level ',' or ';'
                e = k + 1
                d = 0
                while e < n:
                    tt = toks[e][1]
                    if tt in '([{':
                        d += 1
                    elif tt in ')]}':
                        if d == 0:
                            break
                        d -= 1
                    elif tt in (',', ';') and d == 0:
                        break
                    e += 1
                init_toks = toks[k + 1:e]
                if untok(init_toks).strip() == '{}' and bty in self.classes:
                    init = self.classes[bty].default_init
                else:
                    init = self.tr_tokens(init_toks).strip()
                k = e
            elif t == '(' or t == '{':
                e = self._match(toks, k)
                args = [self.tr_tokens(a).strip() for a in self._split_args(toks[k + 1:e])]
                if bty in self.classes and self.classes[bty].by_value:
                    init = self.classes[bty].ctor(args)
                elif bty in self.classes:
                    ci = self.classes[bty]
                    if not args:
                        init = ci.default_init
                    elif len(args) == 1 and getattr(ci, 'copy_ok', False):
                        init = args[0]
                    elif hasattr(ci, 'ctor'):
                        init = ci.ctor(args)
                    else:
                        raise ExtractError('%s: constructor call %s(%d args) not supported' % (self.cur.cname, bty, len(args)))
                else:
                    if len(args) != 1:
                        raise ExtractError('%s: scalar direct-init with %d args' % (self.cur.cname, len(args)))
                    init = args[0]
                k = self._next_sig(toks, e + 1)
            elif t == ':':
                # range-for handled by caller rule; not supported here
                raise ExtractError('%s: range-for over %s not rewritten by a rule' % (self.cur.cname, cxxty))
            # register + emit
            if ref:
                self.env[name] = ('ptr', bty)
                if init is None:
                    raise ExtractError('%s: reference local %s without initialiser' % (self.cur.cname, name))
                decl = '%s%s* %s = &(%s)' % ('const ' if is_const else '', cty, name, init)
            else:
                self.env[name] = ('val', bty + dims if dims else (bty + '*' if ptr else bty))
                if init is None and bty in self.classes and not self.classes[bty].by_value and not ptr and not dims:
                    init = self.classes[bty].default_init
                if first:
                    decl = '%s%s %s%s%s' % ('const ' if is_const and not ptr else '', cty, '*' if ptr else '', name, dims)
                else:
                    decl = '%s%s%s' % ('*' if ptr else '', name, dims)
                if init is not None:
                    decl += ' = ' + init
            if first or ref:
                out.append(decl)
            else:
                out[-1] += ', ' + decl
            first = False
            if toks[k][1] == ',':
                k += 1
                if ref:
                    first = True
                continue
            break
        text = '; '.join(out)
        return k, text


KEYWORDS = {'if', 'else', 'while', 'for', 'do', 'return', 'break', 'continue', 'switch', 'case', 'default',
            'true', 'false', 'goto', 'struct', 'unsigned', 'signed', 'long', 'short', 'const', 'nullptr', 'sizeof',
            'assert', 'static', 'typedef'}
