"""Unit nn (C07, partial): feature index symmetry, incremental first-layer state (setPiece / pushState / popState / forceFullEval)."""
import sys, os, re
sys.path.insert(0, os.path.dirname(os.path.dirname(os.path.abspath(__file__))))
from unitlib import Unit, ClassInfo, norm
from cxx2c import ExtractError, find_function
from prove import Group
import common

NN_H = 'lib/texellib/nn/nneval.hpp'
NN_C = 'lib/texellib/nn/nneval.cpp'
CONST_H = 'lib/texellib/constants.hpp'


def build():
    U = Unit('nn')
    common.pieces(U)
    common.square_methods(U)
    U.consts(CONST_H, 'SearchConst', ['MAX_SEARCH_DEPTH'])
    U.const(NN_H, 'maxIncr', 'NNEvaluator')
    U.const(NN_H, 'maxStackSize', 'NNEvaluator')
    U.in_class_scope('NNEvaluator', ['maxIncr', 'maxStackSize'])
    # BOUNDED stand-in for the stack functions: the 400-level stack of first-layer states (38 KB object) makes every symbolic-level access
    # intractable (12-20 GB in both dfcc and mode M); their groups are run with a stack of NN_STACK_BOUND levels and labelled bounded
    U.raw('#ifdef NN_STACK_BOUND\n#undef NNEvaluator_maxStackSize\n#define NNEvaluator_maxStackSize NN_STACK_BOUND\n#endif\n')
    # one generic lane of the first-layer accumulator (A-LANE: lanes are independent in the generic kernels)
    fls = U.struct(NN_H, 'FirstLayerState', typeover={'l1Out': ('S16', 'S16', ''), 'pad': None},
                   expect=[('Vector<S16, n1>', 'l1Out', ''), ('int', 'toAdd', '[maxIncr]'), ('int', 'toSub', '[maxIncr]'), ('int', 'toAddLen', ''), ('int', 'toSubLen', ''),
                           ('Square', 'kingSqComputed', ''), ('int', 'pad', '[5]')])
    U.struct(NN_H, 'FirstLayerStack', typeover={'pad': None}, expect=[('FirstLayerState', 'flState', '[maxStackSize][2]'), ('int', 'stackTop', ''), ('int', 'pad', '[15]')])
    nn = U.struct(NN_H, 'NNEvaluator', only=['stack'])
    for c in ('maxIncr', 'maxStackSize'):
        nn.statics[c] = ('NNEvaluator_' + c, 'int')
    U.uf_table('NNEvaluator_ptValue', 'int', [13], 'piece -> network piece type (staticInitialize)')
    nn.statics['ptValue'] = ('NNEvaluator_ptValue', 'int[13]')
    # the lambda of setPiece is replaced by a macro with the pinned text
    src = U.src(NN_C)
    if not re.search(r'auto isNonKing = \[\]\(int p\) \{\s*return p != Piece::EMPTY && p != Piece::WKING && p != Piece::BKING;\s*\};', src.text):
        raise ExtractError('pin changed: lambda isNonKing of NNEvaluator::setPiece')
    U.raw('#define isNonKing(p) ((p) != Piece_EMPTY && (p) != Piece_WKING && (p) != Piece_BKING)   /* pinned lambda of setPiece */\n')
    U.passthrough('isNonKing')
    U.stub('NNEvaluator_computeL1WB', 'void NNEvaluator_computeL1WB(struct NNEvaluator* self)')
    U.tr.declare('NNEvaluator_computeL1WB', 'NNEvaluator', 'computeL1WB', 'void', [], is_static=False)
    U.pull(NN_C, 'getIndex', cname='nn_getIndex')
    U.pull(NN_H, 'NNEvaluator::FirstLayerState::clear', cname='FirstLayerState_clear')
    U.pull(NN_H, 'NNEvaluator::getLinState')
    U.pull(NN_C, 'NNEvaluator::forceFullEval')
    U.pull(NN_C, 'NNEvaluator::setPiece', rules=[(r'auto isNonKing = \[\]\(int p\) \{\s*return p != Piece::EMPTY && p != Piece::WKING && p != Piece::BKING;\s*\};', '', 1)])
    # per-perspective body of the loop of setPiece as a fragment on one FirstLayerState (continue == return in a loop body)
    LAMBDA = r'auto isNonKing = \[\]\(int p\) \{\s*return p != Piece::EMPTY && p != Piece::WKING && p != Piece::BKING;\s*\};'
    fr = U.fragment(NN_C, 'NNEvaluator_setPiece_one', r'Square kSq = s\.kingSqComputed;', r'\}\s*\Z', within='NNEvaluator::setPiece',
                    params=[('FirstLayerState', 's', True), ('Square', 'square', False), ('int', 'oldPiece', False), ('int', 'newPiece', False), ('int', 'c', False)],
                    cls='NNEvaluator', is_static=True, rules=[(r'\bcontinue;', 'return;', 3)])
    U.tr.classes['NNEvaluator'].methods.setdefault((fr.cname, len(fr.params), False), {})[''] = fr
    # tiling pin: setPiece is "for both perspectives c: <fragment>(getLinState(c), square, oldPiece, newPiece, c)"
    sp = find_function(src, 'NNEvaluator::setPiece')
    m0 = re.search(r'Square kSq = s\.kingSqComputed;', sp.body)
    if not m0 or norm(re.sub(LAMBDA, '', sp.body[:m0.start()])) != 'for (int c = 0; c < 2; c++) { FirstLayerState& s = getLinState(c);' or not re.search(r'\}\s*\}\s*\Z', sp.body):
        raise ExtractError('tiling pin changed: loop header of NNEvaluator::setPiece')
    # first loop of computeL1WB (lazy refresh), per-perspective body: apply the pending queue unless the king square changed, then empty the queue
    U.tr.typemap['bool*'] = '_Bool*'; U.tr.typemap['Square*'] = 'Square*'; U.tr.typemap['int*'] = 'int*'
    U.stub('ghost_addSub', 'void ghost_addSub(S16* l1Out, const int* toAdd, int toAddLen, const int* toSub, int toSubLen)')
    U.tr.declare('ghost_addSub', None, 'ghost_addSub', 'void', [('S16', 'l1Out', True), ('int*', 'toAdd', False), ('int', 'toAddLen', False), ('int*', 'toSub', False), ('int', 'toSubLen', False)])
    cw = find_function(src, 'NNEvaluator::computeL1WB')
    m1 = re.search(r'doFull\[c\] = s\.kingSqComputed != kingSq\[c\];', cw.body)
    if not m1 or norm(cw.body[:m1.start()]) != 'bool doFull[2]; Square kingSq[2]; kingSq[0] = posP->getKingSq(true); kingSq[1] = posP->getKingSq(false); for (int c = 0; c < 2; c++) { FirstLayerState& s = getLinState(c);':
        raise ExtractError('tiling pin changed: head of NNEvaluator::computeL1WB')
    U.fragment(NN_C, 'NNEvaluator_computeL1WB_apply', r'doFull\[c\] = s\.kingSqComputed != kingSq\[c\];', r'\}\s*if \(!doFull\[0\] && !doFull\[1\]\)', within='NNEvaluator::computeL1WB',
               params=[('FirstLayerState', 's', True), ('bool*', 'doFull', False), ('Square*', 'kingSq', False), ('int', 'c', False)], cls='NNEvaluator', is_static=True,
               rules=[(r'addSubWeights\(s\.l1Out, netData\.weight1, ', 'ghost_addSub(s.l1Out, ', 1)])
    U.pull(NN_C, 'NNEvaluator::pushState')
    U.pull(NN_C, 'NNEvaluator::popState', rules=[(r'forceFullEval\(\);', 'forceFullEval(true);', 1)])
    return U


SPEC = r'''
/* first-layer weights: an arbitrary table (uninterpreted), one 16-bit lane */
S16 __CPROVER_uninterpreted_W(int idx);
#define W(i) __CPROVER_uninterpreted_W(i)
/* ghost model field per perspective c: the from-scratch accumulator value for the king square the state was computed for */
S16 ghost_full[2];
int ghost_c;    /* arbitrary perspective */
#define MIRY(s) ((s) ^ 0x38)
#define MIRX(s) ((s) ^ 7)
#define SWAPPT(pt) ((pt) >= 5 ? (pt) - 5 : (pt) + 5)
#define FLS(self, c) ((self)->stack.flState[(self)->stack.stackTop][c])
static S16 spec_pending(const struct FirstLayerState* s) {   /* l1Out plus queued additions minus queued subtractions (16-bit wrap-around) */
    /* additions and subtractions are summed in separate chains, in queue order, so that appending to a queue extends a chain at its end */
    unsigned a = 0, b = 0;
    for (int i = 0; i < 4; i++) { if (i < s->toAddLen) a += (U16)W(s->toAdd[i]); }
    for (int i = 0; i < 4; i++) { if (i < s->toSubLen) b += (U16)W(s->toSub[i]); }
    return (S16)(U16)((U16)s->l1Out + a - b); }
/* incremental state of perspective c is consistent: invalid, or accumulator + pending == from-scratch value */
static _Bool acc_ok(const struct NNEvaluator* e, int c) {
    const struct FirstLayerState* s = &e->stack.flState[e->stack.stackTop][c];
    if (s->toAddLen < 0 || s->toAddLen > 4 || s->toSubLen < 0 || s->toSubLen > 4 || s->kingSqComputed < -1 || s->kingSqComputed > 63) return 0;
    return s->kingSqComputed == -1 || spec_pending(s) == ghost_full[c]; }
static S16 spec_apply(S16 l1, const int* add, int al, const int* sub, int sl) {
    unsigned a = 0, b = 0;
    for (int i = 0; i < 4; i++) { if (i < al) a += (U16)W(add[i]); }
    for (int i = 0; i < 4; i++) { if (i < sl) b += (U16)W(sub[i]); }
    return (S16)(U16)((U16)l1 + a - b); }
static _Bool st_ok(const struct FirstLayerState* s) {
    return !(s->toAddLen < 0 || s->toAddLen > 4 || s->toSubLen < 0 || s->toSubLen > 4 || s->kingSqComputed < -1 || s->kingSqComputed > 63); }
/* complete case split on the queue lengths of the state (5 x 5 cases, each a separate run) */
#ifdef CASE_AL
#define ST_CASE(s) ((s)->toAddLen == CASE_AL && (s)->toSubLen == CASE_SL)
#else
#define ST_CASE(s) 1
#endif
#define ST_ACC(s, c) ((s)->kingSqComputed == -1 || spec_pending(s) == ghost_full[c])
/* complete case split over the stack level (0 .. maxStackSize-1): each case is a separate run with a constant level */
#ifdef CASE_TOP
#define STACK_OK(e) ((e)->stack.stackTop == CASE_TOP && CASE_TOP < NNEvaluator_maxStackSize)
#else
#define STACK_OK(e) (0 <= (e)->stack.stackTop && (e)->stack.stackTop < NNEvaluator_maxStackSize)
#endif
'''
_SELF = '__CPROVER_is_fresh(self, sizeof(*self))'
CONTRACTS = {
    # feature index: in range; colour swap symmetry; left-right mirror symmetry
    'nn_getIndex': {
        'requires': ['0 <= kSq && kSq < 64 && 0 <= sq && sq < 64 && 0 <= pt && pt < 10'],
        'assigns': [],
        'ensures': ['0 <= __CPROVER_return_value && __CPROVER_return_value < 32 * 10 * 64'],
    },
    'FirstLayerState_clear': {'requires': [_SELF], 'assigns': ['self->toAddLen, self->toSubLen, self->kingSqComputed'],
                              'ensures': ['self->toAddLen == 0 && self->toSubLen == 0 && self->kingSqComputed == -1']},
    'NNEvaluator_computeL1WB': {   # assumed: recomputes / applies pending updates (not under contract): leaves both perspectives consistent with empty queues
        'requires': [_SELF], 'assigns': ['self->stack.flState[self->stack.stackTop][0]', 'self->stack.flState[self->stack.stackTop][1]', 'ghost_full[0]', 'ghost_full[1]'],
        'ensures': ['acc_ok(self, 0) && acc_ok(self, 1)', 'FLS(self, 0).toAddLen == 0 && FLS(self, 0).toSubLen == 0 && FLS(self, 1).toAddLen == 0 && FLS(self, 1).toSubLen == 0']},
    'NNEvaluator_setPiece': {
        'requires': [_SELF, 'STACK_OK(self)', '0 <= square && square < 64 && 0 <= oldPiece && oldPiece <= 12 && 0 <= newPiece && newPiece <= 12',
                     'acc_ok(self, 0) && acc_ok(self, 1)',
                     '0 <= NNEvaluator_ptValue_AT(oldPiece) && NNEvaluator_ptValue_AT(oldPiece) < 10 && 0 <= NNEvaluator_ptValue_AT(newPiece) && NNEvaluator_ptValue_AT(newPiece) < 10'],
        'assigns': ['self->stack.flState[self->stack.stackTop][0]', 'self->stack.flState[self->stack.stackTop][1]', 'ghost_full[0]', 'ghost_full[1]'],
        # the queued state stays consistent with the from-scratch value of the changed board (incl. the path with more than 4 pending changes)
        'ensures': ['acc_ok(self, 0) && acc_ok(self, 1)', 'self->stack.stackTop == __CPROVER_old(self->stack.stackTop)'],
        # ghost update of the from-scratch value: the board changed on one square (king pieces carry no feature)
        'ghost_entry': ('for (int ghost_i = 0; ghost_i < 2; ghost_i++) { int ghost_k = self->stack.flState[self->stack.stackTop][ghost_i].kingSqComputed; if (ghost_k != -1) { '
                        'unsigned ghost_v = (U16)ghost_full[ghost_i]; '
                        'if (isNonKing(oldPiece)) ghost_v -= (U16)W(nn_getIndex(ghost_k, NNEvaluator_ptValue_AT(oldPiece), square, ghost_i == 0)); '
                        'if (isNonKing(newPiece)) ghost_v += (U16)W(nn_getIndex(ghost_k, NNEvaluator_ptValue_AT(newPiece), square, ghost_i == 0)); '
                        'ghost_full[ghost_i] = (S16)(U16)ghost_v; } }'),
    },
    'NNEvaluator_setPiece_one': {
        'requires': ['__CPROVER_is_fresh(s, sizeof(*s))', '0 <= square && square < 64 && 0 <= oldPiece && oldPiece <= 12 && 0 <= newPiece && newPiece <= 12', 'c == 0 || c == 1',
                     'st_ok(s)', 'ST_ACC(s, c)', 'ST_CASE(s)',
                     '0 <= NNEvaluator_ptValue_AT(oldPiece) && NNEvaluator_ptValue_AT(oldPiece) < 10 && 0 <= NNEvaluator_ptValue_AT(newPiece) && NNEvaluator_ptValue_AT(newPiece) < 10'],
        # (the frame of the other perspective's ghost is stated as a postcondition: with the target ghost_full[c] alone, dfcc's replacement havocked both elements)
        'assigns': ['*s', 'ghost_full[0]', 'ghost_full[1]'],
        # the queued state stays consistent with the from-scratch value of the changed board (incl. the overflow path with more than 4 pending changes)
        'ensures': ['st_ok(s)', 'ST_ACC(s, c)', 'ghost_full[1 - c] == __CPROVER_old(ghost_full[1 - c])'],
        'ghost_entry': ('if (s->kingSqComputed != -1) { unsigned ghost_v = (U16)ghost_full[c]; '
                        'if (isNonKing(oldPiece)) ghost_v -= (U16)W(nn_getIndex(s->kingSqComputed, NNEvaluator_ptValue_AT(oldPiece), square, c == 0)); '
                        'if (isNonKing(newPiece)) ghost_v += (U16)W(nn_getIndex(s->kingSqComputed, NNEvaluator_ptValue_AT(newPiece), square, c == 0)); '
                        'ghost_full[c] = (S16)(U16)ghost_v; }'),
    },
    # assumed (A-LANE, generic kernel addSubWeights): out += sum of added rows - sum of subtracted rows, in queue order
    'ghost_addSub': {'requires': ['__CPROVER_rw_ok(l1Out, sizeof(*l1Out))', '0 <= toAddLen && toAddLen <= 4 && 0 <= toSubLen && toSubLen <= 4',
                                  '__CPROVER_r_ok(toAdd, 4 * sizeof(int))', '__CPROVER_r_ok(toSub, 4 * sizeof(int))'],
                     'assigns': ['*l1Out'],
                     'ensures': ['*l1Out == spec_apply(__CPROVER_old(*l1Out), toAdd, toAddLen, toSub, toSubLen)']},
    # lazy refresh, first loop: afterwards the queue is empty in every case; when the king square is unchanged the accumulator has absorbed
    # the queue (state still equals the from-scratch value); doFull tells the second part which perspectives to rebuild
    'NNEvaluator_computeL1WB_apply': {
        'requires': ['__CPROVER_is_fresh(s, sizeof(*s))', '__CPROVER_is_fresh(doFull, 2 * sizeof(_Bool))', '__CPROVER_is_fresh(kingSq, 2 * sizeof(Square))', 'c == 0 || c == 1',
                     'st_ok(s)', 'ST_ACC(s, c)', '0 <= kingSq[c] && kingSq[c] < 64'],
        'assigns': ['*s', 'doFull[c]'],
        'ensures': ['s->toAddLen == 0 && s->toSubLen == 0', 'doFull[c] == (__CPROVER_old(s->kingSqComputed) != kingSq[c])',
                    's->kingSqComputed == __CPROVER_old(s->kingSqComputed)', '!doFull[c] ==> (s->kingSqComputed != -1 && s->l1Out == ghost_full[c])'],
    },
    'NNEvaluator_pushState': {
        'requires': [_SELF, 'STACK_OK(self)', 'self->stack.stackTop < NNEvaluator_maxStackSize - 1', 'acc_ok(self, 0) && acc_ok(self, 1)'],
        'assigns': ['__CPROVER_object_whole(self)', 'ghost_full[0]', 'ghost_full[1]'],
        'ensures': ['self->stack.stackTop == __CPROVER_old(self->stack.stackTop) + 1', 'acc_ok(self, 0) && acc_ok(self, 1)'],
    },
    'NNEvaluator_forceFullEval': {
        'requires': [_SELF, 'STACK_OK(self)'],
        'assigns': ['self->stack.stackTop', 'self->stack.flState[0][0]', 'self->stack.flState[0][1]', 'self->stack.flState[self->stack.stackTop][0]', 'self->stack.flState[self->stack.stackTop][1]'],
        'ensures': ['clearStack ==> self->stack.stackTop == 0', 'FLS(self, 0).kingSqComputed == -1 && FLS(self, 1).kingSqComputed == -1', 'acc_ok(self, 0) && acc_ok(self, 1)'],
    },
    'NNEvaluator_popState': {
        'requires': [_SELF, 'STACK_OK(self)'],
        'assigns': ['__CPROVER_object_whole(self)'],
        # stack underflow (after a position assignment) falls back to a full evaluation
        'ensures': ['__CPROVER_old(self->stack.stackTop) > 0 ==> self->stack.stackTop == __CPROVER_old(self->stack.stackTop) - 1',
                    '__CPROVER_old(self->stack.stackTop) == 0 ==> (self->stack.stackTop == 0 && FLS(self, 0).kingSqComputed == -1 && FLS(self, 1).kingSqComputed == -1)'],
    },
}
HARNESS = r'''
#ifdef CANARY
#define CANARY_POINT __CPROVER_assert(0, "canary: harness end reachable")
#else
#define CANARY_POINT
#endif
int nondet_int(void);
static void hv(void) { __CPROVER_havoc_object(ghost_full); ghost_c = nondet_int(); }
void h_getIndex(void) { int k = nondet_int(), pt = nondet_int(), s = nondet_int(); _Bool w = (nondet_int() != 0); nn_getIndex(k, pt, s, w); CANARY_POINT; }
/* symmetry lemmas of the feature index (real body): swapping colours (board flipped, piece colours swapped, perspective swapped)
   and mirroring left-right leave the index unchanged */
void h_lemma_index_symmetry(void) {
    int k = nondet_int(), pt = nondet_int(), s = nondet_int(); _Bool w = (nondet_int() != 0);
    __CPROVER_assume(0 <= k && k < 64 && 0 <= s && s < 64 && 0 <= pt && pt < 10);
    int i0 = nn_getIndex(k, pt, s, w);
    __CPROVER_assert(nn_getIndex(MIRY(k), SWAPPT(pt), MIRY(s), !w) == i0, "feature index invariant under colour swap");
    __CPROVER_assert(nn_getIndex(MIRX(k), pt, MIRX(s), w) == i0, "feature index invariant under left-right mirroring");
    CANARY_POINT;
}
void h_clear(void) { struct FirstLayerState* s; hv(); FirstLayerState_clear(s); CANARY_POINT; }
void h_setPiece(void) { struct NNEvaluator* e; int sq, a, b; hv(); NNEvaluator_setPiece(e, sq, a, b); CANARY_POINT; }
void h_setPiece_one(void) { struct FirstLayerState* s; int sq, a, b, c; hv(); NNEvaluator_setPiece_one(s, sq, a, b, c); CANARY_POINT; }
void h_l1wb_apply(void) { struct FirstLayerState* s; _Bool* d; Square* k; int c; hv(); NNEvaluator_computeL1WB_apply(s, d, k, c); CANARY_POINT; }
void h_pushState(void) { struct NNEvaluator* e; hv(); NNEvaluator_pushState(e); CANARY_POINT; }
void h_popState(void) { struct NNEvaluator* e; hv(); NNEvaluator_popState(e); CANARY_POINT; }
void h_forceFullEval(void) { struct NNEvaluator* e; _Bool c = (nondet_int() != 0); hv(); NNEvaluator_forceFullEval(e, c); CANARY_POINT; }
'''
UNWIND = {'spec_pending': 5, 'spec_apply': 5, 'NNEvaluator_setPiece': 3, 'NNEvaluator_pushState': 3, 'NNEvaluator_forceFullEval': 3}
GROUPS = [
    Group('getIndex', 'h_getIndex', enforce='nn_getIndex', min_props=2),
    Group('index_symmetry', 'h_lemma_index_symmetry', min_props=2),
    Group('FirstLayerState_clear', 'h_clear', enforce='FirstLayerState_clear', min_props=2),
    Group('setPiece_one', 'h_setPiece_one', enforce='NNEvaluator_setPiece_one', min_props=5, timeout=1800,
          cases=('case', [('CASE_AL=%d' % a, 'CASE_SL=%d' % b) for a in range(5) for b in range(5)])),
    Group('computeL1WB_apply', 'h_l1wb_apply', enforce='NNEvaluator_computeL1WB_apply', replace=('ghost_addSub',), min_props=5, timeout=3600),
    Group('pushState', 'h_pushState', enforce='NNEvaluator_pushState', replace=('NNEvaluator_computeL1WB',), defines=('NN_STACK_BOUND=8',), min_props=5, timeout=1800, bounded='stack of 8 levels instead of maxStackSize = 400 (the functions are uniform in the level: they touch only levels stackTop, stackTop-1 and 0)'),
    Group('popState', 'h_popState', enforce='NNEvaluator_popState', replace=('NNEvaluator_forceFullEval',), defines=('NN_STACK_BOUND=8',), min_props=3, bounded='stack of 8 levels instead of maxStackSize = 400 (the functions are uniform in the level: they touch only levels stackTop, stackTop-1 and 0)'),
    Group('forceFullEval', 'h_forceFullEval', enforce='NNEvaluator_forceFullEval', replace=('FirstLayerState_clear',), defines=('NN_STACK_BOUND=8',), min_props=3, bounded='stack of 8 levels instead of maxStackSize = 400 (the functions are uniform in the level: they touch only levels stackTop, stackTop-1 and 0)'),
]
# The whole-function groups of setPiece (mode M / dfcc on the 400-level stack object) did not finish; it is verified as the per-perspective
# fragment setPiece_one (complete 5x5 case split on the queue lengths) plus the pinned loop header (composition on paper, DESIGN 13.8).
PROPERTIES = {'C07': ['getIndex', 'index_symmetry', 'FirstLayerState_clear', 'setPiece_one', 'computeL1WB_apply', 'pushState', 'popState', 'forceFullEval']}
ASSUMPTIONS = {'C07': [
    'A-LANE: the 256-lane first-layer accumulator is modelled by one generic 16-bit lane (lanes are independent in the generic kernels addSubWeights/copyVec: out(i) += w(row, i))',
    'first-layer weights W and ptValue are uninterpreted tables (arbitrary network)',
    'assumed contract: NNEvaluator::computeL1WB leaves both perspectives consistent with empty queues (its board scan is not under contract)',
    'ghost_full[c] stands for the from-scratch accumulator of perspective c for the king square the state was computed for; it is updated by ghost code in setPiece (single-square change of the board); king moves are handled by computeL1WB (kingSqComputed != actual king square => full recomputation), which is assumed',
]}
NOT_DECIDED = {'C07': ['computeL1WB / computeL1Out / layers 2-4 / eval(): that the value equals the from-scratch evaluation', 'SIMD build variants (intrinsics)', 'endGameEval.cpp symmetry, evaluation caches, contempt',
                       'colour-swap and mirror symmetry of the whole evaluation (only the feature-index symmetry is proved)']}

MUTANTS = [
    dict(name='getIndex_mirror_threshold', file='lib/texellib/nn/nneval.cpp', pattern=r'    if \(x >= 4\) \{\n        x \^= 7;', repl='    if (x > 4) {\n        x ^= 7;', groups=['getIndex', 'index_symmetry']),
    dict(name='getIndex_black_no_piece_swap', file='lib/texellib/nn/nneval.cpp', pattern=r'        pt = \(pt >= 5\) \? \(pt - 5\) : \(pt \+ 5\);\n', repl='', groups=['index_symmetry']),
    dict(name='setPiece_sub_queue_overflow', file='lib/texellib/nn/nneval.cpp', pattern=r'if \(s\.toSubLen < maxIncr\) \{', repl='if (s.toSubLen <= maxIncr) {', groups=['setPiece_one']),
    dict(name='setPiece_add_wrong_perspective', file='lib/texellib/nn/nneval.cpp', pattern=r'int pt = ptValue\[newPiece\];\n            int idx = getIndex\(kSq, pt, square, c == 0\);', repl='int pt = ptValue[newPiece];\n            int idx = getIndex(kSq, pt, square, c != 0);', groups=['setPiece_one']),
    dict(name='setPiece_add_goes_to_sub', file='lib/texellib/nn/nneval.cpp', pattern=r's\.toAdd\[s\.toAddLen\+\+\] = idx;', repl='s.toSub[s.toAddLen++] = idx;', groups=['setPiece_one']),
    dict(name='popState_underflow', file='lib/texellib/nn/nneval.cpp', pattern=r'    if \(stack\.stackTop > 0\) \{\n        stack\.stackTop--;', repl='    if (stack.stackTop >= 0) {\n        stack.stackTop--;', groups=['popState']),
    dict(name='pushState_copies_itself', file='lib/texellib/nn/nneval.cpp', pattern=r'stack\.flState\[stack\.stackTop\]\[c\] = stack\.flState\[stack\.stackTop-1\]\[c\];', repl='stack.flState[stack.stackTop][c] = stack.flState[stack.stackTop][c];', groups=['pushState']),
    dict(name='pushState_skips_pending', file='lib/texellib/nn/nneval.cpp', pattern=r'if \(fls\.toAddLen \+ fls\.toSubLen > 0\)\n            computeL1WB\(\);', repl='if (fls.toAddLen + fls.toSubLen > maxIncr)\n            computeL1WB();', groups=['pushState']),
]
