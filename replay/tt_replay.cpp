// Native replay for unit tt (C04/C08): TTEntry::setScore/getScore ply shift and TranspositionTable::setBusy on the entry, ply and
// contempt hash of a CBMC counterexample, against the real classes of /repo.  The oracle for the record fields is the unit's own
// spec text (spec_rec_*, compiled as C).  Exit 1 = violation reproduced, 0 = not reproduced, 2 = usage.
#include "transpositionTable.hpp"
#include <cstdio>
#include <cstdlib>
#include <cstring>
#include <string>
extern "C" { int oracle_score(unsigned long long d, int ply); int oracle_type(unsigned long long d); int oracle_depth(unsigned long long d); int oracle_eval(unsigned long long d); int oracle_busy(unsigned long long d); }
int main(int argc, char** argv) {
    if (argc < 2) return 2;
    std::string kind = argv[1];
    if (kind == "setBusy" && argc >= 6) {
        U64 key = std::strtoull(argv[2], nullptr, 10), data = std::strtoull(argv[3], nullptr, 10); int ply = std::atoi(argv[4]);
        U64 contempt = std::strtoull(argv[5], nullptr, 10);
        if (oracle_type(data) == TType::T_EMPTY) { std::printf("entry of type T_EMPTY: the search never calls setBusy on it, and a probe cannot tell it from a miss\n"); return 0; }
        TranspositionTable tt(1 << 16);
        tt.contemptHash = contempt;
        TranspositionTable::TTEntry ent; ent.key = key; ent.data = data;
        tt.setBusy(ent, ply);
        TranspositionTable::TTEntry res;
        tt.probe(key, res);       // insert() stored the record under key ^ contemptHash, which is what probe(key) looks for
        if (res.getType() == TType::T_EMPTY) { std::printf("record not found after setBusy\n"); return 1; }
        bool ok = res.getScore(ply) == oracle_score(data, ply) && res.getType() == oracle_type(data) && res.getDepth() == oracle_depth(data) &&
                  res.getEvalScore() == oracle_eval(data) && res.getBusy();
        std::printf("ply=%d: stored score at ply %d -> re-stored %d; type %d -> %d; depth %d -> %d; eval %d -> %d; busy %d\n", ply, oracle_score(data, ply), res.getScore(ply),
                    oracle_type(data), res.getType(), oracle_depth(data), res.getDepth(), oracle_eval(data), res.getEvalScore(), (int)res.getBusy());
        std::printf(ok ? "postcondition holds natively\n" : "VIOLATED natively\n");
        return ok ? 0 : 1;
    }
    if (kind == "setScore" && argc >= 6) {
        U64 data = std::strtoull(argv[2], nullptr, 10); int score = std::atoi(argv[3]), ply = std::atoi(argv[4]), q = std::atoi(argv[5]);
        TranspositionTable::TTEntry ent; ent.key = 0; ent.data = data;
        ent.setScore(score, ply);
        int back = ent.getScore(ply), atq = ent.getScore(q);
        int want = score > SearchConst::MATE0 / 2 ? score + ply - q : score < -(SearchConst::MATE0 / 2) ? score - ply + q : score;
        bool ok = back == score && atq == want && oracle_score(ent.data, ply) == score;
        std::printf("setScore(%d, ply %d): getScore(ply) = %d, getScore(%d) = %d (expected %d)\n", score, ply, back, q, atq, want);
        std::printf(ok ? "postcondition holds natively\n" : "VIOLATED natively\n");
        return ok ? 0 : 1;
    }
    std::printf("no native driver for kind %s\n", kind.c_str());
    return 0;
}
