"""Unit bbtables (C01 layer 1): the attack tables built by BitBoard::staticInitialize (fragments, one per table loop) and the
table lookups kingAttacks/knightAttacks/wPawnAttacks/bPawnAttacks/squaresBetween against coordinate definitions."""
import sys, os, re, importlib.util
HERE = os.path.dirname(os.path.abspath(__file__))
sys.path.insert(0, os.path.dirname(HERE))
from unitlib import Unit, ClassInfo
from prove import Group
from cxx2c import ExtractError, find_function
import common
from common import BB_H, BB_C

_spec = importlib.util.spec_from_file_location('unit_movegen_for_tables', os.path.join(os.path.dirname(HERE), 'movegen', 'unit.py'))
mg = importlib.util.module_from_spec(_spec); _spec.loader.exec_module(mg)

K_START = r'for \(Square sq : AllSquares\(\)\) \{\s*U64 m = 1ULL << sq;\s*U64 mask = \(\(\(m >> 1\)'
N_START = r'for \(Square sq : AllSquares\(\)\) \{\s*U64 m = 1ULL << sq;\s*U64 mask = \(\(\(m <<  6\)'
P_START = r'for \(Square sq : AllSquares\(\)\) \{\s*U64 m = 1ULL << sq;\s*U64 mask = \(\(m << 7\)'
E_START = r'for \(int f = 0; f < 8; f\+\+\) \{\s*U64 m = 0;\s*if \(f > 0\) m \|= 1ULL << Square\(f-1, 3\);'
B_START = r'for \(Square sq1 : AllSquares\(\)\) \{\s*for \(Square j : AllSquares\(\)\)'


def build():
    U = Unit('bbtables')
    common.square_methods(U)
    common.bitboard_consts(U)
    bb = U.tr.classes['BitBoard']
    U.raw('U64 BitBoard_kingAttacksTable[64], BitBoard_knightAttacksTable[64], BitBoard_wPawnAttacksTable[64], BitBoard_bPawnAttacksTable[64];\n'
          'U64 BitBoard_wPawnBlockerMaskTable[64], BitBoard_bPawnBlockerMaskTable[64];\nU64 BitBoard_squaresBetweenTable[64][64];\nU64 BitBoard_epMaskW[8], BitBoard_epMaskB[8];\n')
    for t in ('kingAttacksTable', 'knightAttacksTable', 'wPawnAttacksTable', 'bPawnAttacksTable', 'wPawnBlockerMaskTable', 'bPawnBlockerMaskTable'):
        bb.statics[t] = ('BitBoard_' + t, 'U64[64]')
    bb.statics['squaresBetweenTable'] = ('BitBoard_squaresBetweenTable', 'U64[64][64]')
    bb.statics['epMaskW'] = ('BitBoard_epMaskW', 'U64[8]'); bb.statics['epMaskB'] = ('BitBoard_epMaskB', 'U64[8]')
    for f in ('kingAttacks', 'knightAttacks', 'wPawnAttacks', 'bPawnAttacks'):
        U.pull(BB_H, 'BitBoard::' + f, nparams=1, as_static=True)
    U.pull(BB_H, 'BitBoard::squaresBetween', nparams=2, as_static=True)
    F = lambda name, a, b, **kw: U.fragment(BB_C, name, a, b, params=[], cls='BitBoard', is_static=True, **kw)
    F('BitBoard_init_epMask', E_START, K_START)
    F('BitBoard_init_king', K_START, N_START)
    F('BitBoard_init_knight', N_START, P_START)
    F('BitBoard_init_pawn', P_START, r'#ifdef USE_BMI2\s*int tdSize = 0;')
    # one row of squaresBetweenTable: the body of the outer loop `for (Square sq1 : AllSquares())` (header pinned), as a function of sq1
    st = find_function(U.src(BB_C), 'BitBoard::staticInitialize')
    mrow = re.search(r'for \(Square sq1 : AllSquares\(\)\) \{\s*(?=for \(Square j : AllSquares\(\)\))', st.body)
    if not mrow or not re.search(r'\}\s*\}\s*\}\s*\}\s*\Z', st.body):
        raise ExtractError('tiling pin changed: squaresBetween loop of BitBoard::staticInitialize')
    U.fragment(BB_C, 'BitBoard_init_between_row', r'for \(Square j : AllSquares\(\)\)', r'\}\s*\Z', params=[('Square', 'sq1', False)], cls='BitBoard', is_static=True,
               within='BitBoard::staticInitialize', within_kw={})
    F('BitBoard_init_between', B_START, r'\}\s*\}\s*\}\s*\}\s*$', include_end=True, rules=[(r'\}\s*$', '', 1)])
    return U


_ms = mg.SPEC[mg.SPEC.index('/* ---------------- rules of chess on a plain board'):]
SPEC = _ms.split('static U64 spec_occ')[0] + r'''
#pragma CPROVER check pop
int ghost_s, ghost_t; U64 ghost_v;
#ifndef CASE_ROW
#define CASE_ROW 0
#endif
static U64 spec_wblock(int sq) { U64 m = 0; int x = sq & 7, y = sq >> 3; for (int yy = y + 1; yy < 8; yy++) for (int dx = -1; dx <= 1; dx++) if (ON_BOARD(x + dx, yy)) m |= BITM(SQ(x + dx, yy)); return m; }
static U64 spec_bblock(int sq) { U64 m = 0; int x = sq & 7, y = sq >> 3; for (int yy = y - 1; yy >= 0; yy--) for (int dx = -1; dx <= 1; dx++) if (ON_BOARD(x + dx, yy)) m |= BITM(SQ(x + dx, yy)); return m; }
static U64 spec_epw(int f) { U64 m = 0; if (f > 0) m |= BITM(SQ(f - 1, 3)); if (f < 7) m |= BITM(SQ(f + 1, 3)); return m; }
static U64 spec_epb(int f) { U64 m = 0; if (f > 0) m |= BITM(SQ(f - 1, 4)); if (f < 7) m |= BITM(SQ(f + 1, 4)); return m; }
'''
SPEC = '#pragma CPROVER check push\n#define IS_WHITE(p) ((p) >= 1 && (p) <= 6)\n' + SPEC
_S = '0 <= ghost_s && ghost_s < 64 && 0 <= ghost_t && ghost_t < 64'
CONTRACTS = {
    'BitBoard_init_epMask': {'requires': [_S], 'assigns': ['__CPROVER_object_whole(BitBoard_epMaskW)', '__CPROVER_object_whole(BitBoard_epMaskB)'],
                             'ensures': ['ghost_s < 8 ==> (BitBoard_epMaskW[ghost_s] == spec_epw(ghost_s) && BitBoard_epMaskB[ghost_s] == spec_epb(ghost_s))']},
    'BitBoard_init_king': {'requires': [_S], 'assigns': ['__CPROVER_object_whole(BitBoard_kingAttacksTable)'],
                           'ensures': ['BitBoard_kingAttacksTable[ghost_s] == spec_king_att(ghost_s)']},
    'BitBoard_init_knight': {'requires': [_S], 'assigns': ['__CPROVER_object_whole(BitBoard_knightAttacksTable)'],
                             'ensures': ['BitBoard_knightAttacksTable[ghost_s] == spec_knight_att(ghost_s)']},
    'BitBoard_init_pawn': {'requires': [_S], 'assigns': ['__CPROVER_object_whole(BitBoard_wPawnAttacksTable)', '__CPROVER_object_whole(BitBoard_bPawnAttacksTable)',
                                                          '__CPROVER_object_whole(BitBoard_wPawnBlockerMaskTable)', '__CPROVER_object_whole(BitBoard_bPawnBlockerMaskTable)'],
                           'ensures': ['BitBoard_wPawnAttacksTable[ghost_s] == spec_wpawn_att(ghost_s) && BitBoard_bPawnAttacksTable[ghost_s] == spec_bpawn_att(ghost_s)',
                                       'BitBoard_wPawnBlockerMaskTable[ghost_s] == spec_wblock(ghost_s) && BitBoard_bPawnBlockerMaskTable[ghost_s] == spec_bblock(ghost_s)']},
    # row sq1 of the table equals the geometric definition for every target square; only that row is written (assigns clause)
    'BitBoard_init_between_row': {'requires': ['sq1 == CASE_ROW', '0 <= ghost_t && ghost_t < 64'],
                                  'assigns': ['__CPROVER_object_upto(&BitBoard_squaresBetweenTable[sq1][0], 64 * sizeof(U64))'],
                                  'ensures': ['BitBoard_squaresBetweenTable[sq1][ghost_t] == spec_between(sq1, ghost_t)']},
    'BitBoard_init_between': {'requires': [_S, 'ghost_v == spec_between(ghost_s, ghost_t)'], 'assigns': ['__CPROVER_object_whole(BitBoard_squaresBetweenTable)'],
                              'ensures': ['BitBoard_squaresBetweenTable[ghost_s][ghost_t] == spec_between(ghost_s, ghost_t)'],
                              'loops': {0: {'assigns': 'sq1, __CPROVER_object_whole(BitBoard_squaresBetweenTable)',
                                            'invariant': ['0 <= sq1 && sq1 <= 64', 'ghost_s < sq1 ==> BitBoard_squaresBetweenTable[ghost_s][ghost_t] == ghost_v']}}},
}
# the lookups, given tables as established by staticInitialize (same contracts as assumed in unit movegen)
for f, spec in (('kingAttacks', 'spec_king_att'), ('knightAttacks', 'spec_knight_att'), ('wPawnAttacks', 'spec_wpawn_att'), ('bPawnAttacks', 'spec_bpawn_att')):
    CONTRACTS['BitBoard_' + f] = {'requires': ['0 <= sq && sq < 64', 'BitBoard_%sTable[sq] == %s(sq)' % (f, spec)], 'assigns': [],
                                  'ensures': ['__CPROVER_return_value == %s(sq)' % spec]}
CONTRACTS['BitBoard_squaresBetween'] = {'requires': ['0 <= s1 && s1 < 64 && 0 <= s2 && s2 < 64', 'BitBoard_squaresBetweenTable[s1][s2] == spec_between(s1, s2)'], 'assigns': [],
                                        'ensures': ['__CPROVER_return_value == spec_between(s1, s2)']}
HARNESS = r'''
#ifdef CANARY
#define CANARY_POINT __CPROVER_assert(0, "canary: harness end reachable")
#else
#define CANARY_POINT
#endif
int nondet_int(void);
U64 nondet_u64(void);
static void hv(void) { ghost_s = nondet_int(); ghost_t = nondet_int(); ghost_v = nondet_u64(); __CPROVER_havoc_object(BitBoard_kingAttacksTable); __CPROVER_havoc_object(BitBoard_knightAttacksTable);
    __CPROVER_havoc_object(BitBoard_wPawnAttacksTable); __CPROVER_havoc_object(BitBoard_bPawnAttacksTable); __CPROVER_havoc_object(BitBoard_squaresBetweenTable); }
'''
GROUPS = []
for n in ('epMask', 'king', 'knight', 'pawn', 'between'):
    HARNESS += 'void h_init_%s(void) { hv(); BitBoard_init_%s(); CANARY_POINT; }\n' % (n, n)
    GROUPS.append(Group('init_' + n, 'h_init_' + n, enforce='BitBoard_init_' + n, min_props=3, timeout=1800, loop_contracts=(n == 'between')))
for f in ('kingAttacks', 'knightAttacks', 'wPawnAttacks', 'bPawnAttacks'):
    HARNESS += 'void h_%s(void) { int s = nondet_int(); hv(); BitBoard_%s(s); CANARY_POINT; }\n' % (f, f)
    GROUPS.append(Group(f, 'h_' + f, enforce='BitBoard_' + f, min_props=2))
HARNESS += 'void h_between_row(void) { int s = nondet_int(); hv(); BitBoard_init_between_row(s); CANARY_POINT; }\n'
GROUPS.append(Group('init_between_row', 'h_between_row', enforce='BitBoard_init_between_row', min_props=3, timeout=3600, tier='thorough', cases=('CASE_ROW', list(range(64)))))
HARNESS += 'void h_squaresBetween(void) { int a = nondet_int(), b = nondet_int(); hv(); BitBoard_squaresBetween(a, b); CANARY_POINT; }\n'
GROUPS.append(Group('squaresBetween', 'h_squaresBetween', enforce='BitBoard_squaresBetween', min_props=2, canary=False,
                    note='canary switched off: the reachability query alone needs more than 10 min; the precondition is a single table equality'))
UNWIND = {'spec_king_att': 4, 'spec_knight_att': 6, 'spec_between': 9, 'spec_wblock': 9, 'spec_bblock': 9,
          'BitBoard_init_epMask': 9, 'BitBoard_init_king': 65, 'BitBoard_init_knight': 65, 'BitBoard_init_pawn': [65, 9, 9],
          # loops of the squaresBetween fragment in source order: sq1 (contract), j, dx, dy, while(true)
          'BitBoard_init_between': [None, 65, 4, 4, 9], 'BitBoard_init_between_row': [65, 4, 4, 9]}
# init_between (whole loop nest with an outer loop contract) did not finish in 30 min: not claimed; the table initialisation is proved row by row
# (init_between_row: the body of the outer loop as a fragment, complete 64-way case split on the row; only that row is assigned)
PROPERTIES = {'C01': [g.name for g in GROUPS if g.name != 'init_between']}

MUTANTS = [
    dict(name='between_includes_target', file='lib/texellib/bitBoard.cpp', pattern=r'                    squaresBetweenTable\[sq1\]\[sq2\] = m;\n                    m \|= 1ULL << sq2;', repl='                    m |= 1ULL << sq2;\n                    squaresBetweenTable[sq1][sq2] = m;', groups=['init_between_row']),
]
