// Native replay of the C12/C08 finding "aborted on-demand tablebase generation leaves a partial table installed".
// Build against /repo (see replay/build_native.sh).  Exit 1 when the defect is present.
#include "transpositionTable.hpp"
#include "position.hpp"
#include "textio.hpp"
#include <thread>
#include <chrono>
#include <cstdio>
int main() {
    TranspositionTable tt(1 << 20);               // 16 MB: large enough to host a table
    Position pos = TextIO::readFEN("8/8/8/2k5/8/8/3QR3/4K3 w - - 0 1");   // KQRK
    RelaxedShared<S64> maxTime(-1);               // infinite search ...
    std::thread stopper([&]() { std::this_thread::sleep_for(std::chrono::milliseconds(200)); maxTime = 0; });  // ... then "stop"
    bool ok = tt.updateTB(pos, maxTime);
    stopper.join();
    bool installed = (tt.tbGen != nullptr);
    std::printf("updateTB returned %d, generator installed afterwards: %d, usedSize=%llu tableSize=%llu\n",
                (int)ok, (int)installed, (unsigned long long)tt.usedSize, (unsigned long long)tt.tableSize);
    if (ok) { std::printf("generation finished before the stop request; replay inconclusive on this machine\n"); return 2; }
    if (installed) {
        // a later call with a tiny budget now reports the partial table as available
        Position pos2 = TextIO::readFEN("8/8/8/2k5/8/8/3QR3/4K3 b - - 0 1");
        RelaxedShared<S64> t2(10);
        int score = 0;
        bool hit = tt.probeDTM(pos2, 0, score);
        std::printf("probeDTM on the partial table: hit=%d score=%d\n", (int)hit, score);
        return 1;
    }
    return 0;
}
