"""CBMC driver: one obligation group = (harness, function under contract, callees replaced by contract).

Pipeline (DESIGN 2.2):
  goto-cc --function h  ->  goto-instrument --unwindset (contract-less loops) --unwinding-assertions
  ->  goto-instrument --dfcc h --enforce-contract f --replace-call-with-contract g.. --apply-loop-contracts
  ->  cbmc <checks> --json-ui
Classification: discharged / failed (candidate violation) / undecided (timeout, OOM, tool error,
unwinding assertion, missing loop-contract obligations)."""
import subprocess, os, json, re, time, shutil, tempfile, resource, sys
from concurrent.futures import ThreadPoolExecutor

CHECKS = ['--bounds-check', '--pointer-check', '--div-by-zero-check', '--signed-overflow-check',
          '--undefined-shift-check', '--pointer-overflow-check']
FLOAT_CHECKS = ['--float-overflow-check', '--nan-check']


def _limits(mem_gb):
    def f():
        lim = int(mem_gb * (1 << 30))
        resource.setrlimit(resource.RLIMIT_AS, (lim, lim))
        os.setsid()
    return f


def run(cmd, timeout, mem_gb=24, cwd=None):
    t0 = time.time()
    try:
        p = subprocess.Popen(cmd, stdout=subprocess.PIPE, stderr=subprocess.PIPE, cwd=cwd,
                             preexec_fn=_limits(mem_gb), text=True, errors='replace')
        try:
            out, err = p.communicate(timeout=timeout)
        except subprocess.TimeoutExpired:
            try:
                os.killpg(p.pid, 9)
            except Exception:
                p.kill()
            out, err = p.communicate()
            return {'rc': None, 'out': out, 'err': err, 'timeout': True, 'secs': time.time() - t0}
        return {'rc': p.returncode, 'out': out, 'err': err, 'timeout': False, 'secs': time.time() - t0}
    except OSError as e:
        return {'rc': -1, 'out': '', 'err': str(e), 'timeout': False, 'secs': time.time() - t0}


class Group:
    """Configuration of one obligation group."""
    def __init__(self, name, harness, enforce=None, replace=(), loop_contracts=False, unwind=None,
                 unwindset=None, checks=None, floats=False, backend='sat', timeout=1800, mem_gb=24,
                 tier='quick', defines=(), canary=True, min_props=1, expect_loop_props=0, object_bits=12,
                 rec=False, note='', extra_cbmc=(), no_unwind_funcs=(), property_ids=None, covers=None,
                 slice_=False, cases=None, mode='dfcc', m_pre='', bounded=''):
        self.__dict__.update(locals())
        del self.__dict__['self']


LOOP_LINES = {}


def show_loops(gb, workdir):
    r = run(['goto-instrument', '--show-loops', gb], 120)
    loops = []
    for m in re.finditer(r'^Loop (\S+):\s*\n\s*file \S+ line (\d+)', r['out'], re.M):
        loops.append(m.group(1))
        LOOP_LINES[m.group(1)] = int(m.group(2))
    if not loops:
        for m in re.finditer(r'^Loop (\S+):', r['out'], re.M):
            loops.append(m.group(1))
    return loops


def prove_group(cfile, g, workdir, canary=False):
    """Returns dict(status, props, failed, secs, log...)."""
    tag = g.name + ('.canary' if canary else '')
    base = os.path.join(workdir, re.sub(r'[^\w.]', '_', tag))
    res = {'group': g.name, 'canary': canary, 'harness': g.harness, 'enforce': g.enforce,
           'replace': list(g.replace), 'backend': g.backend, 'status': 'undecided', 'reason': '',
           'props': 0, 'ok': 0, 'failed': [], 'secs': 0.0, 'samples': [], 'loop_props': 0,
           'bounded': getattr(g, 'bounded', ''), 'note': getattr(g, 'note', '')}
    t0 = time.time()
    defs = ['-D' + d for d in g.defines] + (['-DCANARY'] if canary else [])
    gb0 = base + '.0.gb'
    r = run(['goto-cc', '--function', g.harness] + defs + [cfile, '-o', gb0], 300)
    res['mode'] = g.mode
    if r['rc'] != 0:
        res['reason'] = 'goto-cc failed: ' + (r['err'] + r['out'])[-1500:]
        res['secs'] = time.time() - t0
        return res
    cur = gb0
    # unwind contract-less loops before dfcc
    loops = show_loops(cur, workdir)
    uw = []
    for l in loops:
        fn = l.rsplit('.', 1)[0]
        if fn in g.no_unwind_funcs and not (g.unwindset and isinstance(g.unwindset.get(fn), (list, tuple))):
            continue
        if g.unwindset and l in g.unwindset:
            if g.unwindset[l] is None:
                continue
            uw.append('%s:%d' % (l, g.unwindset[l]))
        elif g.unwindset and fn in g.unwindset:
            b = g.unwindset[fn]
            if b is None:
                continue
            if isinstance(b, (list, tuple)):
                # one bound per loop of the function, in source-line order
                same = sorted([x for x in loops if x.rsplit('.', 1)[0] == fn], key=lambda x: LOOP_LINES.get(x, 0))
                idx = same.index(l)
                if idx >= len(b):
                    res['reason'] = 'unwind list for %s has %d entries, function has %d loops' % (fn, len(b), len(same))
                    res['secs'] = time.time() - t0
                    return res
                if b[idx] is None:
                    continue
                uw.append('%s:%d' % (l, b[idx]))
            else:
                uw.append('%s:%d' % (l, b))
        elif g.unwind is not None:
            uw.append('%s:%d' % (l, g.unwind))
        else:
            # no bound given: bound 1 + unwinding assertion, so that a reachable one yields
            # "undecided" instead of a hang (unreachable functions are unaffected)
            uw.append('%s:1' % l)
    if uw:
        gb1 = base + '.1.gb'
        r = run(['goto-instrument', '--unwindset', ','.join(uw), '--unwinding-assertions', cur, gb1], 600, g.mem_gb)
        if r['rc'] != 0:
            res['reason'] = 'goto-instrument unwind failed: ' + (r['err'] + r['out'])[-1500:]
            res['secs'] = time.time() - t0
            return res
        cur = gb1
    if (g.enforce or g.replace or g.loop_contracts) and g.mode != 'M':
        gb2 = base + '.2.gb'
        cmd = ['goto-instrument', '--dfcc', g.harness]
        if g.enforce:
            cmd += ['--enforce-contract-rec' if g.rec else '--enforce-contract', g.enforce]
        for c in g.replace:
            cmd += ['--replace-call-with-contract', c]
        if g.loop_contracts:
            cmd += ['--apply-loop-contracts']
        cmd += [cur, gb2]
        r = run(cmd, 900, g.mem_gb)
        if r['rc'] != 0:
            res['reason'] = 'goto-instrument dfcc failed: ' + (r['err'] + r['out'])[-2500:]
            res['secs'] = time.time() - t0
            return res
        cur = gb2
    cmd = ['cbmc'] + (g.checks if g.checks is not None else CHECKS) + (FLOAT_CHECKS if g.floats else [])
    cmd += ['--object-bits', str(g.object_bits), '--json-ui', '--trace']
    # safety net: user loops still present (no contract, no bound) get bound 1 + unwinding assertion,
    # so a reachable one yields "undecided" instead of a hang; dfcc library loops are left to CBMC

    if g.slice_:
        cmd += ['--slice-formula']
    if g.backend == 'kissat':
        cmd += ['--external-sat-solver', 'kissat']
    elif g.backend == 'cvc5':
        cmd += ['--cvc5']
    elif g.backend == 'z3':
        cmd += ['--z3']
    elif g.backend == 'cadical':
        cmd += ['--sat-solver', 'cadical']
    cmd += list(g.extra_cbmc)
    if canary:
        # only the canary assertion is checked in a canary build (reachability of the harness end)
        rp = run(['cbmc', '--show-properties', '--json-ui', cur], 300, g.mem_gb)
        try:
            names = []
            for item in json.loads(rp['out']):
                for pr in item.get('properties', []):
                    if 'canary' in pr.get('description', ''):
                        names.append(pr['name'])
            if not names:
                res['reason'] = 'canary property not found'
                return res
            for nm in names:
                cmd += ['--property', nm]
        except Exception as e:
            res['reason'] = 'cannot list properties for canary: %s' % e
            return res
    cmd += [cur]
    res['cmd'] = ' '.join(cmd[:-1]) + ' <instrumented goto binary of %s>' % g.harness
    r = run(cmd, max(g.timeout, int(os.environ.get('VERIF_MIN_TIMEOUT', '0') or 0)), g.mem_gb)
    res['secs'] = round(time.time() - t0, 2)
    for f in (gb0, base + '.1.gb', base + '.2.gb'):
        try:
            os.remove(f)
        except OSError:
            pass
    if r['timeout']:
        res['reason'] = 'cbmc timeout after %ds' % g.timeout
        return res
    try:
        js = json.loads(r['out'])
    except Exception:
        res['reason'] = 'cbmc output not JSON (rc=%s): %s' % (r['rc'], (r['err'] + r['out'])[-1500:])
        return res
    props = None
    msgs = []
    for item in js:
        if 'result' in item:
            props = item['result']
        if 'messageText' in item:
            msgs.append(item['messageText'])
    alltxt = '\n'.join(msgs)
    if props is None:
        res['reason'] = 'cbmc gave no result list (rc=%s): %s' % (r['rc'], alltxt[-1500:])
        return res
    if 'ignoring forall' in alltxt or 'ignoring exists' in alltxt:
        res['reason'] = 'quantifier ignored by back end'
        return res
    res['props'] = len(props)
    failed = [p for p in props if p.get('status') != 'SUCCESS']
    res['ok'] = len(props) - len(failed)
    res['loop_props'] = sum(1 for p in props if 'loop_invariant_step' in p.get('property', '') or 'loop invariant is preserved' in p.get('description', '').lower() or 'invariant after step' in p.get('description', '').lower())
    res['samples'] = [{'property': p.get('property'), 'description': p.get('description')} for p in props[:3]]
    unwind_fail = [p for p in failed if 'unwind' in p.get('property', '') or 'unwinding assertion' in p.get('description', '')]
    if unwind_fail:
        res['reason'] = 'unwinding assertion failed (bound too small): %s' % unwind_fail[0].get('property')
        res['failed'] = [summ(p) for p in failed]
        return res
    if failed:
        res['status'] = 'failed'
        res['failed'] = [summ(p) for p in failed]
        return res
    if len(props) < g.min_props and not canary:
        res['reason'] = 'vacuity guard: %d properties < floor %d' % (len(props), g.min_props)
        return res
    if g.expect_loop_props and res['loop_props'] < g.expect_loop_props:
        res['reason'] = 'loop contract obligations missing: %d < %d' % (res['loop_props'], g.expect_loop_props)
        return res
    res['status'] = 'discharged'
    return res


def summ(p):
    d = {'property': p.get('property'), 'description': p.get('description'), 'status': p.get('status'),
         'location': p.get('sourceLocation', {})}
    tr = p.get('trace')
    if tr:
        # inputs = assignments made before control first enters a function body other than the harness
        # (harness locals, wrapper parameters, objects allocated by is_fresh during the requires phase)
        inputs = []
        seen_call = False
        for st in tr:
            if st.get('stepType') != 'assignment' or st.get('hidden'):
                continue
            lhs = st.get('lhs', '')
            if lhs.startswith('__') or 'write_set' in lhs or '_car' in lhs or 'car_set' in lhs or lhs.startswith('return_value') or 'goto_symex' in lhs or 'tmp_' in lhs:
                continue
            fn = (st.get('sourceLocation') or {}).get('function') or ''
            # objects allocated by is_fresh get their (nondeterministic) contents inside the contracts library: keep those, drop the rest of the library
            if (fn.startswith('__CPROVER') or fn in ('malloc', 'free')) and not lhs.startswith('dynamic_object'):
                continue
            # havocked lookup tables (thousands of entries) are not inputs of a native replay: the real tables are used there
            if re.match(r'(BitBoard_\w+Table|BitBoard_epMask|BitUtil_\w+Table)\b', lhs):
                continue
            v = st.get('value', {})
            val = v.get('data', v.get('name')) if isinstance(v, dict) else v
            if val is None:
                continue
            inputs.append([lhs, str(val)])
            if len(inputs) >= 4000:
                break
        d['inputs'] = inputs
    return d


def prove_all(cfile_for, groups, workdir, jobs=16, log=print):
    """cfile_for(group) -> path of the C file.  Runs each group and its canary in parallel."""
    results = []
    tasks = []
    import copy
    with ThreadPoolExecutor(max_workers=jobs) as ex:
        expanded = []
        for g in groups:
            if g.cases:
                # complete case split on a compile-time constant: every case must be discharged
                macro, values = g.cases
                for i, v in enumerate(values):
                    gi = copy.copy(g)
                    if isinstance(v, tuple):
                        gi.name = '%s[%s]' % (g.name, ','.join(v))
                        gi.defines = tuple(g.defines) + tuple(v)
                    else:
                        gi.name = '%s[%s=%s]' % (g.name, macro, v)
                        gi.defines = tuple(g.defines) + ('%s=%s' % (macro, v),)
                    gi.cases = None
                    gi.canary = g.canary and i == 0
                    expanded.append(gi)
            else:
                expanded.append(g)
        for g in expanded:
            tasks.append(ex.submit(prove_group, cfile_for(g), g, workdir, False))
            if g.canary:
                tasks.append(ex.submit(prove_group, cfile_for(g), g, workdir, True))
        for t in tasks:
            r = t.result()
            results.append(r)
            log('  [%s%s] %s  props=%d ok=%d %.1fs %s' % (r['group'], ' canary' if r['canary'] else '', r['status'], r['props'], r['ok'], r['secs'], r['reason'][:300]))
    return results
