"""native replay driver for unit tt (C04/C08): setBusy and setScore/getScore on the values of the CBMC trace"""
import subprocess, os, tempfile, re, sys

WRAP = r'''
int oracle_score(U64 d, int ply) { return spec_rec_score(d, ply); }
int oracle_type(U64 d) { return spec_rec_type(d); }
int oracle_depth(U64 d) { return spec_rec_depth(d); }
int oracle_eval(U64 d) { return spec_rec_eval(d); }
int oracle_busy(U64 d) { return spec_rec_busy(d); }
'''


def replay(doc, root):
    fn = doc.get('function_under_contract')
    if fn not in ('TranspositionTable_setBusy', 'TTEntry_setScore'):
        return {'reproduced': False, 'note': 'no native driver for this function'}
    sys.path.insert(0, os.path.join(root, 'tools'))
    import replay as R
    vals = R.trace_values(doc)
    # entries are 16-byte fresh objects {key, data}; the table object has other members
    ents = {}
    contempt = 0
    for k, v in vals.items():
        mm = re.match(r'(dynamic_object\$?\d*)\.(key|data)$', k)
        if mm:
            ents.setdefault(mm.group(1), {})[mm.group(2)] = R.num(v)
        if re.match(r'dynamic_object\$?\d*\.contemptHash$', k):
            contempt = R.num(v)
    ent = None
    for o, d in ents.items():
        if 'data' in d:
            ent = d
    if ent is None:
        return {'reproduced': False, 'note': 'entry not found in the trace'}
    ply = R.num(vals.get('ply'), 0)
    out = tempfile.mkdtemp(prefix='replay_', dir=os.environ.get('VERIF_TMP', '/var/tmp'))
    try:
        obj, err = R.build_oracle(root, 'tt', out, WRAP, ['oracle_score', 'oracle_type', 'oracle_depth', 'oracle_eval', 'oracle_busy'])
        if err:
            return err
        exe = os.path.join(out, 'tt_replay')
        err = R.build_native(root, out, 'tt_replay.cpp', [obj], exe)
        if err:
            return err
        if fn == 'TranspositionTable_setBusy':
            args = ['setBusy', str(ent.get('key', 0)), str(ent['data']), str(ply), str(contempt)]
        else:
            args = ['setScore', str(ent['data']), str(R.num(vals.get('score'), 0)), str(ply), str(R.num(vals.get('ghost_q'), 0))]
        r = subprocess.run([exe] + args, capture_output=True, text=True, timeout=120)
        return {'reproduced': r.returncode == 1, 'args': args, 'stdout': r.stdout[-600:], 'rc': r.returncode}
    except Exception as e:
        return {'reproduced': False, 'note': 'replay driver error: %s' % e}
    finally:
        subprocess.run(['rm', '-rf', out])
