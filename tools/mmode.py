"""Mode M ("manual" contract instrumentation, DESIGN 2.2): the same contract text as for dfcc, turned into
plain CBMC obligations by this generator:

  enforce f :  harness  h_M_f  = typed objects for every __CPROVER_is_fresh clause; other requires -> assume;
               __CPROVER_old(e) -> snapshot before the call; call of the real (extracted) body; ensures -> assert.
  replace g :  the extracted definition of g is renamed g__impl and a stub takes its name:
               requires -> assert (is_fresh clauses skipped), old() snapshots, assigns targets havoced,
               ensures -> assume, result nondet.

Differences to dfcc, stated in the evidence: assigns clauses (frames) are not checked in mode M (they are in the
dfcc groups of the same functions where those finish); is_fresh separation is by construction of the harness.
Used where dfcc's byte-level model of is_fresh'ed arrays makes a proof intractable."""
import re
from cxx2c import match_close, split_top, ExtractError


def _find_calls(text, name):
    out = []
    for m in re.finditer(re.escape(name) + r'\s*\(', text):
        o = m.end() - 1
        c = match_close(text, o)
        out.append((m.start(), c + 1, text[o + 1:c]))
    return out


def _subst_old(expr, snaps, prefix):
    """replace __CPROVER_old(e) by snapshot variables; returns new expr"""
    while True:
        calls = _find_calls(expr, '__CPROVER_old')
        if not calls:
            return expr
        s, e, inner = calls[0]
        key = ' '.join(inner.split())
        if key not in snaps:
            snaps[key] = '%s_old%d' % (prefix, len(snaps))
        expr = expr[:s] + snaps[key] + expr[e:]


def _params(proto):
    m = re.match(r'^(.*?)\b(\w+)\s*\((.*)\)\s*$', proto.strip(), re.S)
    ret, name, ps = m.group(1).strip(), m.group(2), m.group(3).strip()
    params = []
    if ps and ps != 'void':
        for p in split_top(ps, ','):
            p = ' '.join(p.split())
            mm = re.match(r'^(.*?)(\w+)$', p)
            params.append((mm.group(1).strip(), mm.group(2)))
    return ret, name, params


def stub(proto, contract, tag):
    ret, name, params = _params(proto)
    snaps = {}
    body = []
    reqs = []
    for r in contract.get('requires', []):
        if '__CPROVER_is_fresh' in r:
            # separation / validity is by construction of the caller in mode M; other conjuncts of the clause are kept
            r2 = r
            for s, e, inner in reversed(_find_calls(r2, '__CPROVER_is_fresh')):
                r2 = r2[:s] + '1' + r2[e:]
            r = r2
        reqs.append(r)
    ens = [_subst_old(e, snaps, 'ghost_s') for e in contract.get('ensures', [])]
    text = '%s %s(%s)\n{\n' % (ret, name, ', '.join('%s %s' % p for p in params) if params else 'void')
    for i, r in enumerate(reqs):
        text += '    __CPROVER_assert(%s, "precondition %d of %s at call site (mode M stub)");\n' % (r, i + 1, name)
    for k, v in snaps.items():
        text += '    __typeof__(%s) %s = %s;\n' % (k, v, k)
    a = contract.get('assigns', [])
    if isinstance(a, str):
        a = [a]
    for tgt in a:
        for t in split_top(tgt, ','):
            t = t.strip()
            if not t:
                continue
            cond = None
            if ':' in t and not t.startswith('__CPROVER'):
                cond, t = [x.strip() for x in t.split(':', 1)]
            if t.startswith('__CPROVER_object_whole'):
                inner = _find_calls(t, '__CPROVER_object_whole')[0][2]
                st = '__CPROVER_havoc_object((void*)(%s));' % inner
            else:
                st = '{ __typeof__(%s) ghost_nd; __CPROVER_havoc_object(&ghost_nd); %s = ghost_nd; }' % (t, t)
            text += '    %s%s\n' % ('if (%s) ' % cond if cond else '', st)
    if ret != 'void':
        text += '    %s ghost_rv; __CPROVER_havoc_object(&ghost_rv);\n' % ret
        if ret in ('bool', '_Bool'):
            text += '    ghost_rv = (ghost_rv != 0);\n'
    for e in ens:
        e2 = e.replace('__CPROVER_return_value', 'ghost_rv')
        text += '    __CPROVER_assume(%s);\n' % e2
    if ret != 'void':
        text += '    return ghost_rv;\n'
    text += '}\n'
    return text


def harness(proto, contract, hname, pre='', canary=True):
    ret, name, params = _params(proto)
    snaps = {}
    text = 'void %s(void)\n{\n' % hname
    for ty, nm in params:
        text += '    %s %s; __CPROVER_havoc_object(&%s);\n' % (ty, nm, nm)
        if ty in ('bool', '_Bool'):
            text += '    %s = (%s != 0);\n' % (nm, nm)
    text += pre
    k = 0
    for r in contract.get('requires', []):
        # process is_fresh conjunct-wise: top-level && split
        for conj in split_top_and(r):
            conj = conj.strip()
            m = re.match(r'^__CPROVER_is_fresh\((.*)\)$', conj, re.S)
            if m:
                args = split_top(m.group(1), ',')
                ptr, size = args[0].strip(), ','.join(args[1:]).strip()
                mm = re.match(r'^(.*)\*\s*sizeof\((.*)\)$', size)
                if mm and mm.group(1).strip():
                    cnt = mm.group(1).strip()
                    text += '    static __typeof__(*(%s)) ghost_obj%d[%s]; __CPROVER_havoc_object(ghost_obj%d); %s = ghost_obj%d;\n' % (ptr, k, cnt, k, ptr, k)
                else:
                    text += '    static __typeof__(*(%s)) ghost_obj%d; __CPROVER_havoc_object(&ghost_obj%d); %s = (__typeof__(%s))&ghost_obj%d;\n' % (ptr, k, k, ptr, ptr, k)
                k += 1
            elif '__CPROVER_is_fresh' in conj:
                raise ExtractError('mode M: is_fresh inside a compound requires clause of %s: %s' % (name, conj))
            else:
                text += '    __CPROVER_assume(%s);\n' % conj
    ens = [_subst_old(e, snaps, 'ghost_s') for e in contract.get('ensures', [])]
    for kx, v in snaps.items():
        text += '    __typeof__(%s) %s = %s;\n' % (kx, v, kx)
    call = '%s(%s)' % (name, ', '.join(nm for _, nm in params))
    if ret != 'void':
        text += '    %s ghost_rv = %s;\n' % (ret, call)
    else:
        text += '    %s;\n' % call
    for i, e in enumerate(ens):
        e2 = e.replace('__CPROVER_return_value', 'ghost_rv')
        text += '    __CPROVER_assert(%s, "postcondition %d of %s (mode M)");\n' % (e2, i + 1, name)
    if canary:
        text += '    CANARY_POINT;\n'
    text += '}\n'
    return text


def split_top_and(expr):
    """split at top-level && (not inside parentheses)"""
    parts, depth, cur = [], 0, []
    i, n = 0, len(expr)
    while i < n:
        c = expr[i]
        if c in '([{':
            depth += 1
        elif c in ')]}':
            depth -= 1
        if depth == 0 and expr.startswith('&&', i):
            parts.append(''.join(cur)); cur = []; i += 2; continue
        cur.append(c)
        i += 1
    parts.append(''.join(cur))
    return parts
