"""Unit bits (C01 layer 0): bit primitives of bitBoard.hpp, mirror/fill/pawn-attack masks, distances, getDirection + dirTable."""
import sys, os, re
sys.path.insert(0, os.path.dirname(os.path.dirname(os.path.abspath(__file__))))
from unitlib import Unit, ClassInfo
from cxx2c import ExtractError
from prove import Group
import common
from common import BB_H, BB_C, SQ_H


def build():
    U = Unit('bits')
    common.square_methods(U)
    common.bitboard_consts(U)
    common.bit_primitives(U)
    bb = U.tr.classes['BitBoard']
    s = U.src(BB_C)
    m = re.search(r'const\s+S8\s+BitBoard::dirTable\[\]\s*=\s*\{([^}]*)\}', s.text)
    if not m:
        raise ExtractError('dirTable initialiser not found')
    vals = [v.strip() for v in m.group(1).split(',') if v.strip()]
    U.raw('static const S8 BitBoard_dirTable[%d] = { %s };\n#define DIRTABLE_LEN %d\n' % (len(vals), ', '.join(vals), len(vals)))
    bb.statics['dirTable'] = ('BitBoard_dirTable', 'S8[%d]' % len(vals))
    for f in ('mirrorX', 'mirrorY', 'wPawnAttacksMask', 'bPawnAttacksMask', 'southFill', 'northFill'):
        U.pull(BB_H, 'BitBoard::' + f, nparams=1)
    for f in ('getDirection', 'getKingDistance', 'getTaxiDistance'):
        U.pull(BB_H, 'BitBoard::' + f, nparams=2)
    return U


SPEC = common.BIT_SPEC + r'''
int ghost_s;   /* arbitrary square */
#define BIT(m, s) ((((U64)(m)) >> (s)) & 1)
#define SGN(v) ((v) > 0 ? 1 : (v) < 0 ? -1 : 0)
#define ABS_(v) ((v) < 0 ? -(v) : (v))
/* direction between two squares: 8*sign(dy)+sign(dx) on a common line or diagonal, the square offset for a knight jump, else 0 */
static int spec_direction(int from, int to) {
    int dx = (to & 7) - (from & 7), dy = (to >> 3) - (from >> 3);
    if (dx == 0 && dy == 0) return 0;
    if (dx == 0 || dy == 0 || ABS_(dx) == ABS_(dy)) return 8 * SGN(dy) + SGN(dx);
    if ((ABS_(dx) == 1 && ABS_(dy) == 2) || (ABS_(dx) == 2 && ABS_(dy) == 1)) return 8 * dy + dx;
    return 0;
}
'''
_SQ = '0 <= ghost_s && ghost_s < 64'
CONTRACTS = dict(common.BIT_CONTRACTS)
CONTRACTS.update({
    'Square_getX': {'requires': ['0 <= self && self < 64'], 'assigns': [], 'ensures': ['__CPROVER_return_value == self % 8']},
    'Square_getY': {'requires': ['0 <= self && self < 64'], 'assigns': [], 'ensures': ['__CPROVER_return_value == self / 8']},
    'Square_mirrorX': {'requires': ['0 <= self && self < 64'], 'assigns': [], 'ensures': ['__CPROVER_return_value == (self / 8) * 8 + (7 - self % 8)']},
    'Square_mirrorY': {'requires': ['0 <= self && self < 64'], 'assigns': [], 'ensures': ['__CPROVER_return_value == (7 - self / 8) * 8 + self % 8']},
    'Square_rot180': {'requires': ['0 <= self && self < 64'], 'assigns': [], 'ensures': ['__CPROVER_return_value == (7 - self / 8) * 8 + (7 - self % 8)']},
    'Square_isDark': {'requires': ['0 <= self && self < 64'], 'assigns': [], 'ensures': ['__CPROVER_return_value == (((self % 8) + (self / 8)) % 2 == 0)']},
    'BitBoard_mirrorX': {'requires': [_SQ], 'assigns': [], 'ensures': ['BIT(__CPROVER_return_value, ghost_s) == BIT(mask, (ghost_s / 8) * 8 + (7 - ghost_s % 8))']},
    'BitBoard_mirrorY': {'requires': [_SQ], 'assigns': [], 'ensures': ['BIT(__CPROVER_return_value, ghost_s) == BIT(mask, (7 - ghost_s / 8) * 8 + ghost_s % 8)']},
    'BitBoard_wPawnAttacksMask': {'requires': [_SQ], 'assigns': [],
        'ensures': ['BIT(__CPROVER_return_value, ghost_s) == ((ghost_s >= 8 && ghost_s % 8 > 0 && BIT(mask, ghost_s - 9)) || (ghost_s >= 8 && ghost_s % 8 < 7 && BIT(mask, ghost_s - 7)))']},
    'BitBoard_bPawnAttacksMask': {'requires': [_SQ], 'assigns': [],
        'ensures': ['BIT(__CPROVER_return_value, ghost_s) == ((ghost_s < 56 && ghost_s % 8 > 0 && BIT(mask, ghost_s + 7)) || (ghost_s < 56 && ghost_s % 8 < 7 && BIT(mask, ghost_s + 9)))']},
    'BitBoard_southFill': {'requires': [_SQ], 'assigns': [],
        'ensures': ['BIT(__CPROVER_return_value, ghost_s) == (' + ' || '.join('(ghost_s + %d < 64 && BIT(mask, ghost_s + %d))' % (8 * k, 8 * k) for k in range(8)) + ')']},
    'BitBoard_northFill': {'requires': [_SQ], 'assigns': [],
        'ensures': ['BIT(__CPROVER_return_value, ghost_s) == (' + ' || '.join('(ghost_s - %d >= 0 && BIT(mask, ghost_s - %d))' % (8 * k, 8 * k) for k in range(8)) + ')']},
    'BitBoard_getDirection': {'requires': ['0 <= fromS && fromS < 64 && 0 <= toS && toS < 64'], 'assigns': [],
        'ensures': ['__CPROVER_return_value == spec_direction(fromS, toS)']},
    'BitBoard_getKingDistance': {'requires': ['0 <= from && from < 64 && 0 <= to && to < 64'], 'assigns': [],
        'ensures': ['__CPROVER_return_value == STD_MAX(ABS_((to & 7) - (from & 7)), ABS_((to >> 3) - (from >> 3)))']},
    'BitBoard_getTaxiDistance': {'requires': ['0 <= from && from < 64 && 0 <= to && to < 64'], 'assigns': [],
        'ensures': ['__CPROVER_return_value == ABS_((to & 7) - (from & 7)) + ABS_((to >> 3) - (from >> 3))']},
})
HARNESS = r'''
#ifdef CANARY
#define CANARY_POINT __CPROVER_assert(0, "canary: harness end reachable")
#else
#define CANARY_POINT
#endif
int nondet_int(void); U64 nondet_u64(void);
'''
GROUPS = []
_F1 = ['BitUtil_firstBit', 'BitUtil_lastBit', 'BitUtil_bitCount', 'BitBoard_firstSquare', 'BitBoard_lastSquare', 'BitBoard_bitCount',
       'BitBoard_mirrorX', 'BitBoard_mirrorY', 'BitBoard_wPawnAttacksMask', 'BitBoard_bPawnAttacksMask', 'BitBoard_southFill', 'BitBoard_northFill']
for f in _F1:
    HARNESS += 'void h_%s(void) { U64 m = nondet_u64(); ghost_s = nondet_int(); %s(m); CANARY_POINT; }\n' % (f, f)
    rep = {'BitBoard_firstSquare': ('BitUtil_firstBit',), 'BitBoard_lastSquare': ('BitUtil_lastBit',), 'BitBoard_bitCount': ('BitUtil_bitCount',)}.get(f, ())
    GROUPS.append(Group(f, 'h_' + f, enforce=f, replace=rep, min_props=1, timeout=3600))
for f in ('BitUtil_extractBit', 'BitBoard_extractSquare'):
    HARNESS += 'void h_%s(void) { U64* m; %s(m); CANARY_POINT; }\n' % (f, f)
    GROUPS.append(Group(f, 'h_' + f, enforce=f, replace={'BitUtil_extractBit': ('BitUtil_firstBit',), 'BitBoard_extractSquare': ('BitUtil_extractBit',)}[f], min_props=1))
for f in ('Square_getX', 'Square_getY', 'Square_mirrorX', 'Square_mirrorY', 'Square_rot180', 'Square_isDark'):
    HARNESS += 'void h_%s(void) { int s = nondet_int(); %s(s); CANARY_POINT; }\n' % (f, f)
    GROUPS.append(Group(f, 'h_' + f, enforce=f, min_props=1))
for f in ('BitBoard_getDirection', 'BitBoard_getKingDistance', 'BitBoard_getTaxiDistance'):
    HARNESS += 'void h_%s(void) { int a = nondet_int(), b = nondet_int(); %s(a, b); CANARY_POINT; }\n' % (f, f)
    GROUPS.append(Group(f, 'h_' + f, enforce=f, replace=('Square_getX', 'Square_getY') if 'Distance' in f else (), min_props=1))
UNWIND = {'spec_popcount': 65, 'spec_lowest': 65, 'spec_highest': 65}
PROPERTIES = {'C01': [g.name for g in GROUPS]}

MUTANTS = [
    dict(name='bitCount_mask', file='lib/texellib/bitBoard.hpp', pattern=r'const U64 k2 = 0x3333333333333333ULL;', repl='const U64 k2 = 0x3333333333333331ULL;', groups=['BitUtil_bitCount']),
    dict(name='trailingZ_table_entry', file='lib/texellib/bitBoard.cpp', pattern=r'    60, 39, 48, 27, 54, 33, 42,  3,', repl='    60, 39, 48, 27, 54, 33, 41,  3,', groups=['BitUtil_firstBit']),
    dict(name='mirrorX_mask', file='lib/texellib/bitBoard.hpp', pattern=r'    U64 k1 = 0x5555555555555555ULL;\n    U64 k2 = 0x3333333333333333ULL;\n    U64 k3', repl='    U64 k1 = 0x5555555555555555ULL;\n    U64 k2 = 0x3333333333333331ULL;\n    U64 k3', groups=['BitBoard_mirrorX']),
    dict(name='mirrorY_last_swap', file='lib/texellib/bitBoard.hpp', pattern=r't = \(\(t >> 32\)     \) \| \(\(t     \) << 32\);', repl='t = ((t >> 32)     ) | ((t     ) << 31);', groups=['BitBoard_mirrorY']),
    dict(name='wPawnAttacksMask_files', file='lib/texellib/bitBoard.hpp', pattern=r'return \(\(mask & maskBToHFiles\) << 7\) \|\n           \(\(mask & maskAToGFiles\) << 9\);', repl='return ((mask & maskAToGFiles) << 7) |\n           ((mask & maskBToHFiles) << 9);', groups=['BitBoard_wPawnAttacksMask']),
    dict(name='southFill_short', file='lib/texellib/bitBoard.hpp', pattern=r'    mask \|= \(mask >> 8\);\n    mask \|= \(mask >> 16\);\n    mask \|= \(mask >> 32\);', repl='    mask |= (mask >> 8);\n    mask |= (mask >> 16);', groups=['BitBoard_southFill']),
    dict(name='mirrorY_square', file='lib/texellib/square.hpp', pattern=r'Square::mirrorY\(\) const \{\n    return Square\(sq \^ 0x38\);', repl='Square::mirrorY() const {\n    return Square(sq ^ 0x30);', groups=['Square_mirrorY']),
]
